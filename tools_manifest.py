#!/venv/bin/python
"""Regenerates MANIFEST.json from the table below (single source of truth)."""
import json, os
HERE = os.path.dirname(os.path.abspath(__file__))

CLAIMED = {
 'C01': dict(engine='session_box', ref='4.7',
   text='Seeded search over call histories on one long-lived Box (setters of every parameter family, conversions, re-expression, data-model round trips, refused setters, caller scribbles) checked after every step against an independent 3x3+origin model; violations are minimised and replayable. Exploration, not proof: the state that can go stale (the reciprocal cache, bound arrays) is only observable along a history, and sampling histories is what this family offers.',
   note='Trusts numpy.linalg.solve/det as the independent arithmetic; cells restricted to the quantifier (right-handed, non-degenerate); single caller, no threads (atomman has none).',
   technique='deterministic simulation: seeded operation-and-fault histories vs reference model, ddmin replay'),
}
BUILDING = {}
NA = {
 'C02': 'pure function of (cell, periodic flags, points): no state, stream, clock, second party or history for a simulator to control; needs input-space techniques (PBT / exhaustive lattice search).',
 'C03': 'sentences 1-2 (exact pair set, symmetry, order) are a pure function decided by a brute-force oracle over generated configurations, i.e. input sampling; only the storage-size/file clause touches a seam and MANIFEST cannot claim a third of a property.',
 'C04': 'supersize/rotate/cell conversions are pure maps system -> system; nothing persists between calls, nothing external is touched.',
 'C05': 'wrap and normalize are single deterministic transformations of one system; "input left as it was" is a before/after comparison of one call, not a history.',
 'C07': '(system, options) -> text judged by an independent parser; the statement contains no perturbation, ordering, loss or restart to inject.',
 'C11': 'algebra on a 6x6 array with no cache and no I/O (its data-model round trip is exercised under C10).',
 'C12': 'deterministic eigen-solve and closed-form field evaluation; no state, I/O or randomness.',
 'C13': 'deterministic composition of pure steps (rotate, supersize, displace, select); no fault or history the statement speaks of.',
 'C14': 'integer-vector geometry per cut/shift; StackingFault keeps a system between calls but the statement is about each cut and shift, not about sequences.',
 'C16': 'exhaustive bounded integer enumeration is the natural decision procedure; that is enumeration, not simulation.',
 'C17': 'pure functions of two systems and a neighbour list.',
 'C18': 'interpolation and quadratic forms; solve() delegates to scipy.optimize deterministically; no fault the statement mentions.',
 'C20': 'numerical-analysis order conditions; the only clock read (time.time in ISMPath.relax) feeds a printed message, no decision.',
}

def main():
    checks = []
    for pid, c in sorted(CLAIMED.items()):
        checks.append({
            'property_id': pid,
            'quick_cmd': 'timeout 900 ./bin/check %s --tier quick' % pid,
            'thorough_cmd': 'timeout 3000 ./bin/check %s --tier thorough' % pid,
            'evidence_file': 'evidence/%s.json' % pid,
            'replay_cmd_template': './bin/check %s --replay {path}' % pid,
            'engine': c['engine'],
            'level_claimed': {'category': 'exploration', 'text': c['text'], 'design_ref': 'DESIGN.md §' + c['ref']},
            'level_note': c['note'],
            'technique': c['technique'],
        })
    na = [{'property_id': k, 'reason': v} for k, v in sorted(NA.items())]
    na += [{'property_id': k, 'reason': v} for k, v in sorted(BUILDING.items())]
    engines = {}
    for pid, c in CLAIMED.items():
        engines.setdefault(c['engine'], []).append(pid)
    m = {
        'version': 1,
        'setup_cmd': 'timeout 900 ./bin/check --setup',
        'hooks': {
            'guard': 'ATOMMAN_VERIF',
            'enable': 'no hook exists in /repo: every seam is an argument, a module attribute or a module global (DESIGN.md §3.2); checks copy the working tree to a scratch directory, build its Cython extensions there and import it through PYTHONPATH',
            'baseline_off_cmd': 'cd /repo && /venv/bin/python -m pytest -ra -q -p no:cacheprovider --timeout=900 --continue-on-collection-errors',
            'source_commits': [],
            'add_only': True,
        },
        'engines': [{'name': n, 'path': 'sim/engines/%s.py' % n, 'serves_properties': sorted(p),
                     'kind_free_text': 'seeded deterministic simulation engine (see DESIGN.md §4)'} for n, p in sorted(engines.items())],
        'checks': checks,
        'not_applicable': sorted(na, key=lambda e: e['property_id']),
        'notes': 'All checks: exit 0 held / 1 VIOLATION / 2 harness error. VERIF_SEED and VERIF_TIER honoured. Known findings: known_findings.jsonl. See DESIGN.md.',
    }
    with open(os.path.join(HERE, 'MANIFEST.json'), 'w') as f:
        json.dump(m, f, indent=1)
        f.write('\n')

if __name__ == '__main__':
    import sys
    sys.path.insert(0, HERE)
    try:
        import manifest_table
        CLAIMED.update(manifest_table.CLAIMED); BUILDING.clear(); BUILDING.update(manifest_table.BUILDING)
    except ImportError:
        pass
    main()
