"""Scratch copy of /repo's working tree with its Cython extensions built.

Every check imports atomman from such a copy, never from /repo itself and
never from the editable install in /venv: a stale .so in /repo cannot mask an
edited .pyx, and /repo is never written to.

The compiled extension modules are the only expensive part (about 20 s).  They
are cached under a key that hashes *every input of the compilation*: the text
of every .pyx/.pxd file, setup.py, and the versions of python, Cython and numpy.
Python sources are always copied afresh.  Set VERIF_NO_BUILD_CACHE=1 to force
a build; the cache is an optimisation only and may be deleted at any time.
"""

import glob
import hashlib
import os
import shutil
import subprocess
import sys
import tempfile

REPO = os.environ.get('VERIF_REPO', '/repo')
CACHE_ROOT = os.environ.get('VERIF_BUILD_CACHE', '/var/tmp/atomman-verif-socache')
PY = '/venv/bin/python'


def _native_sources(repo):
    out = []
    for pat in ('atomman/**/*.pyx', 'atomman/**/*.pxd'):
        out += glob.glob(os.path.join(repo, pat), recursive=True)
    out.append(os.path.join(repo, 'setup.py'))
    return sorted(out)


def native_key(repo=REPO):
    h = hashlib.sha256()
    import Cython
    import numpy
    h.update(repr((sys.version, Cython.__version__, numpy.__version__)).encode())
    for p in _native_sources(repo):
        h.update(os.path.relpath(p, repo).encode() + b'\0')
        with open(p, 'rb') as f:
            h.update(f.read())
        h.update(b'\0')
    return h.hexdigest()[:24]


def tree_sha(repo=REPO):
    """sha over every .py/.pyx/.pxd of the package: labels replay files."""
    h = hashlib.sha256()
    files = []
    for ext in ('py', 'pyx', 'pxd'):
        files += glob.glob(os.path.join(repo, 'atomman/**/*.' + ext), recursive=True)
    for p in sorted(files):
        h.update(os.path.relpath(p, repo).encode() + b'\0')
        with open(p, 'rb') as f:
            h.update(f.read())
    return h.hexdigest()[:16]


def _ignore(dirpath, names):
    drop = set()
    for n in names:
        if n == '__pycache__' or n.endswith(('.so', '.c', '.pyc', '.pyd')):
            drop.add(n)
    return drop


def build(repo=REPO, verbose=False):
    """Returns the path of a fresh scratch directory containing an importable
    `atomman` package built from `repo`'s working tree.  The caller removes it."""
    scratch = tempfile.mkdtemp(prefix='atomman-verif-tree.')
    shutil.copytree(os.path.join(repo, 'atomman'), os.path.join(scratch, 'atomman'),
                    ignore=_ignore, symlinks=True)
    for f in ('setup.py', 'README.rst'):
        shutil.copy(os.path.join(repo, f), os.path.join(scratch, f))

    key = native_key(scratch)
    cache = os.path.join(CACHE_ROOT, key)
    use_cache = os.environ.get('VERIF_NO_BUILD_CACHE', '') != '1'
    if use_cache and os.path.isfile(os.path.join(cache, 'DONE')):
        for so in glob.glob(os.path.join(cache, '**/*.so'), recursive=True):
            rel = os.path.relpath(so, cache)
            shutil.copy(so, os.path.join(scratch, rel))
        return scratch

    env = dict(os.environ)
    env.pop('PYTHONPATH', None)
    r = subprocess.run([PY, 'setup.py', '-q', 'build_ext', '--inplace', '-j', '8'],
                       cwd=scratch, env=env, stdout=subprocess.PIPE,
                       stderr=subprocess.STDOUT, text=True)
    if r.returncode != 0:
        sys.stderr.write(r.stdout[-4000:])
        shutil.rmtree(scratch, ignore_errors=True)
        raise RuntimeError('build_ext failed in scratch tree')
    if verbose:
        sys.stderr.write(r.stdout[-2000:])
    shutil.rmtree(os.path.join(scratch, 'build'), ignore_errors=True)
    for c in glob.glob(os.path.join(scratch, 'atomman/**/*.c'), recursive=True):
        os.remove(c)

    if use_cache:
        try:
            tmp = cache + '.tmp%d' % os.getpid()
            for so in glob.glob(os.path.join(scratch, 'atomman/**/*.so'), recursive=True):
                rel = os.path.relpath(so, scratch)
                os.makedirs(os.path.dirname(os.path.join(tmp, rel)), exist_ok=True)
                shutil.copy(so, os.path.join(tmp, rel))
            open(os.path.join(tmp, 'DONE'), 'w').close()
            os.makedirs(CACHE_ROOT, exist_ok=True)
            if os.path.exists(cache):
                shutil.rmtree(tmp, ignore_errors=True)
            else:
                os.rename(tmp, cache)
        except OSError:
            pass
    return scratch
