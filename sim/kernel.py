"""Simulator kernel: one integer decides everything.

A *run* is: derive run_seed from (property, VERIF_SEED, run index); create one
PRNG from it; let the engine draw a configuration, then generate and apply
operations and faults one at a time against the real atomman code and against a
reference model; check invariants after every step.  Everything executed is
appended to an event log whose rolling SHA-256 is the run's digest.  The
concrete operation list is the replay artefact: replay applies it literally,
drawing nothing from the PRNG.
"""

import collections
import hashlib
import json
import os
import random
import signal
import sys
import traceback

import numpy as np


# --------------------------------------------------------------------------
# exceptions

class Violation(Exception):
    """The real code broke a clause of a property."""

    def __init__(self, clause, detail=None, site='oracle', klass=''):
        super().__init__(clause)
        self.clause = clause
        self.detail = detail if detail is not None else {}
        self.site = site
        self.klass = klass

    def signature(self):
        return (self.clause, self.site, self.klass)

    def as_dict(self):
        return {'clause': self.clause, 'site': self.site, 'klass': self.klass,
                'detail': canon(self.detail, keep_values=True)}


class HarnessError(Exception):
    """Something went wrong in the machinery itself; never a VIOLATION."""


class RunTimeout(HarnessError):
    pass


# --------------------------------------------------------------------------
# canonical, JSON-able form of anything that enters the event log

def canon(x, keep_values=False):
    if x is None or isinstance(x, (bool, str)):
        return x
    if isinstance(x, (int, np.integer)):
        return int(x)
    if isinstance(x, (float, np.floating)):
        x = float(x)
        return x if keep_values else x.hex()
    if isinstance(x, complex):
        return [canon(x.real, keep_values), canon(x.imag, keep_values)]
    if isinstance(x, np.ndarray):
        if keep_values and x.size <= 64:
            vals = np.stack([x.real, x.imag], axis=-1).tolist() if x.dtype.kind == 'c' else x.tolist()
            return {'shape': list(x.shape), 'dtype': str(x.dtype), 'values': vals}
        a = np.ascontiguousarray(x)
        if a.dtype == object:
            sha = hashlib.sha1(repr(a.tolist()).encode()).hexdigest()[:16]
        else:
            sha = hashlib.sha1(a.tobytes()).hexdigest()[:16]
        return {'shape': list(x.shape), 'dtype': str(x.dtype), 'sha': sha}
    if isinstance(x, (bytes, bytearray)):
        if keep_values and len(x) <= 400:
            return {'bytes': bytes(x).decode('latin-1')}
        return {'nbytes': len(x), 'sha': hashlib.sha1(bytes(x)).hexdigest()[:16]}
    if isinstance(x, dict):
        return {str(k): canon(v, keep_values) for k, v in sorted(x.items(), key=lambda kv: str(kv[0]))}
    if isinstance(x, (list, tuple)):
        return [canon(v, keep_values) for v in x]
    if isinstance(x, (set, frozenset)):
        return sorted(canon(v, keep_values) for v in x)
    if isinstance(x, BaseException):
        return {'exc': type(x).__name__, 'msg': str(x)[:200]}
    return repr(x)[:200]


def jsonable(x):
    """Literal, loss-free JSON form for operation arguments (replay files)."""
    if x is None or isinstance(x, (bool, str, int, float)):
        return x
    if isinstance(x, np.integer):
        return int(x)
    if isinstance(x, np.floating):
        return float(x)
    if isinstance(x, np.bool_):
        return bool(x)
    if isinstance(x, np.ndarray):
        return x.tolist()
    if isinstance(x, dict):
        return {str(k): jsonable(v) for k, v in x.items()}
    if isinstance(x, (list, tuple)):
        return [jsonable(v) for v in x]
    raise TypeError('not jsonable: %r' % type(x))


def derive_seed(prop, verif_seed, index):
    h = hashlib.sha256(('%s:%d:%d' % (prop, verif_seed, index)).encode()).digest()
    return int.from_bytes(h[:8], 'big')


def sut_site(exc):
    """Innermost frame of the traceback that lies inside the atomman package."""
    site = None
    for fs in traceback.extract_tb(exc.__traceback__):
        fn = fs.filename.replace('\\', '/')
        if '/atomman/' in fn and '/sim/' not in fn:
            site = 'atomman/' + fn.split('/atomman/', 1)[1] + ':' + fs.name
    if site is None:
        tb = traceback.extract_tb(exc.__traceback__)
        if tb:
            fs = tb[-1]
            site = os.path.basename(fs.filename) + ':' + fs.name
        else:
            site = 'unknown'
    return site


# --------------------------------------------------------------------------
# per-run context

class Ctx:

    def __init__(self, prop, run_seed, keep_events=False):
        self.prop = prop
        self.run_seed = run_seed
        self.rng = random.Random(run_seed)
        self.np = np.random.Generator(np.random.PCG64(run_seed))
        self._h = hashlib.sha256()
        self.n = 0
        self.keep_events = keep_events
        self.events = []
        self.ops = collections.Counter()
        self.faults = collections.Counter()
        self.probes = collections.Counter()
        self.sigs = set()
        self.changes = 0          # state-changing operations (for non-triviality)
        self.sim_steps = 0        # simulated time units, engines that have any
        self.known_hits = []
        self.ev('seed', 'run', {'run_seed': run_seed})

    # event log -----------------------------------------------------------
    def ev(self, kind, what, args=None, out=None):
        rec = {'n': self.n, 'k': kind, 'what': what}
        if args is not None:
            rec['args'] = canon(args)
        if out is not None:
            rec['out'] = canon(out)
        line = json.dumps(rec, sort_keys=True, allow_nan=True)
        self._h.update(line.encode())
        self._h.update(b'\n')
        if self.keep_events:
            self.events.append(rec)
        self.n += 1

    def digest(self):
        return self._h.hexdigest()

    # counters (never touch the PRNG) -------------------------------------
    def op(self, kind):
        self.ops[kind] += 1

    def fault(self, kind, n=1):
        self.faults[kind] += n
        self.ev('fault', kind)

    def probe(self, name, n=1):
        self.probes[name] += n

    def sig(self, *parts):
        s = json.dumps(canon(parts), sort_keys=True)
        self.sigs.add(hashlib.blake2b(s.encode(), digest_size=8).hexdigest())

    # calls into the system under test ------------------------------------
    def sut(self, fn, *a, **kw):
        """Returns (True, value) or (False, exception).  Only exceptions that
        derive from Exception are caught; the harness's own Violation and
        HarnessError pass through."""
        try:
            return True, fn(*a, **kw)
        except (Violation, HarnessError):
            raise
        except Exception as e:      # noqa: BLE001 - SUT may raise anything
            return False, e

    def must(self, clause, fn, *a, klass='', detail=None, **kw):
        """Call that the property requires to succeed."""
        ok, v = self.sut(fn, *a, **kw)
        if not ok:
            d = {'exception': type(v).__name__, 'message': str(v)[:300]}
            if detail:
                d.update(detail)
            raise Violation(clause, d, site=sut_site(v), klass=klass or type(v).__name__)
        return v

    def choice(self, seq):
        return seq[self.rng.randrange(len(seq))]

    def wchoice(self, pairs):
        """pairs: list of (item, weight); deterministic order."""
        tot = sum(w for _, w in pairs)
        x = self.rng.random() * tot
        acc = 0.0
        for it, w in pairs:
            acc += w
            if x < acc:
                return it
        return pairs[-1][0]


# --------------------------------------------------------------------------
# engines

class Engine:
    prop = None
    name = None
    rule = ''
    tolerances = {}
    real_components = []
    stub_components = []
    assumptions = []
    max_ops = 60

    def config(self, ctx):
        return {'nops': 10}

    def init(self, ctx, cfg):
        return {}

    def gen(self, ctx, st):
        raise NotImplementedError

    def apply(self, ctx, st, op):
        raise NotImplementedError

    def finish(self, ctx, st):
        pass

    def cleanup(self, st):
        pass

    def simplify(self, op):
        """Candidate simpler versions of one op (for the minimiser)."""
        return []

    def nontrivial(self, ctx):
        return sum(ctx.faults.values()) >= 1 or ctx.changes >= 2


# --------------------------------------------------------------------------
# running and replaying

class _Alarm:
    def __init__(self, seconds):
        self.seconds = seconds

    def _fire(self, signum, frame):
        raise RunTimeout('run exceeded %ss wall' % self.seconds)

    def __enter__(self):
        if self.seconds and hasattr(signal, 'SIGALRM'):
            self._old = signal.signal(signal.SIGALRM, self._fire)
            signal.setitimer(signal.ITIMER_REAL, self.seconds)
        return self

    def __exit__(self, *a):
        if self.seconds and hasattr(signal, 'SIGALRM'):
            signal.setitimer(signal.ITIMER_REAL, 0)
            signal.signal(signal.SIGALRM, self._old)


def execute(engine, run_seed, cfg=None, ops=None, keep_events=False, wall=30):
    """Runs one history.  With ops=None the history is generated from the PRNG;
    otherwise `cfg` and `ops` are applied literally.  Returns a result dict."""
    ctx = Ctx(engine.prop, run_seed, keep_events=keep_events)
    replaying = ops is not None
    done = []
    viol = None
    st = None
    try:
        with _Alarm(wall):
            try:
                if not replaying:
                    cfg = jsonable(engine.config(ctx))
                ctx.ev('cfg', engine.name, cfg)
                st = engine.init(ctx, cfg)
                if replaying:
                    for op in ops:
                        done.append(op)
                        engine.apply(ctx, st, op)
                else:
                    for _ in range(min(int(cfg.get('nops', 10)), engine.max_ops)):
                        op = engine.gen(ctx, st)
                        if op is None:
                            break
                        op = jsonable(op)
                        done.append(op)
                        engine.apply(ctx, st, op)
                engine.finish(ctx, st)
            except Violation as v:
                viol = v
                ctx.ev('violation', v.clause, {'site': v.site, 'klass': v.klass})
    finally:
        if st is not None:
            try:
                engine.cleanup(st)
            except Exception:       # noqa: BLE001
                pass
    return {
        'run_seed': run_seed,
        'cfg': cfg,
        'ops': done,
        'digest': ctx.digest(),
        'violation': viol.as_dict() if viol else None,
        'nsteps': ctx.n,
        'ops_by_kind': dict(ctx.ops),
        'faults': dict(ctx.faults),
        'probes': dict(ctx.probes),
        'sigs': ctx.sigs,
        'nontrivial': engine.nontrivial(ctx),
        'sim_steps': ctx.sim_steps,
        'events': ctx.events if keep_events else None,
    }


# --------------------------------------------------------------------------
# process isolation
#
# The library under test may keep state at module level (a cache, a shared default array, a table rebuilt in place).
# A run's outcome is then a function of the runs executed earlier in the same process.  To keep "one seed = one
# repeatable execution" true even then, runs are executed in freshly forked children of a process that has never
# executed a run: the state a run can see is (pristine process) + (the runs listed in its prelude, in order).

def in_fork(fn, timeout=600):
    """Runs fn() in a forked child and returns its (picklable) result.  Raises HarnessError when the child dies,
    hangs or raises."""
    import pickle
    import select
    rfd, wfd = os.pipe()
    sys.stdout.flush()
    sys.stderr.flush()
    pid = os.fork()
    if pid == 0:
        code = 0
        try:
            os.close(rfd)
            try:
                payload = pickle.dumps(('ok', fn()), protocol=pickle.HIGHEST_PROTOCOL)
            except BaseException as e:      # noqa: BLE001
                payload = pickle.dumps(('err', ''.join(traceback.format_exception(type(e), e, e.__traceback__))[-4000:]))
            with os.fdopen(wfd, 'wb') as f:
                f.write(payload)
        except BaseException:               # noqa: BLE001
            code = 1
        finally:
            os._exit(code)
    os.close(wfd)
    chunks = []
    try:
        import time as _time
        deadline = _time.monotonic() + timeout
        while True:
            left = deadline - _time.monotonic()
            if left <= 0:
                os.kill(pid, signal.SIGKILL)
                raise HarnessError('isolated child exceeded %ss' % timeout)
            ready, _, _ = select.select([rfd], [], [], min(left, 5.0))
            if not ready:
                continue
            b = os.read(rfd, 1 << 20)
            if not b:
                break
            chunks.append(b)
    finally:
        os.close(rfd)
        try:
            os.waitpid(pid, 0)
        except ChildProcessError:
            pass
    if not chunks:
        raise HarnessError('isolated child died without a result')
    tag, val = pickle.loads(b''.join(chunks))
    if tag != 'ok':
        raise HarnessError('isolated child raised:\n' + val)
    return val


def run_prelude(engine, prelude_seeds, wall=30):
    """Executes earlier runs of a chunk (generated from their seeds) for the state they leave behind."""
    for rs in prelude_seeds or []:
        try:
            execute(engine, rs, wall=wall)
        except Exception:               # noqa: BLE001 - only their side effects matter here
            pass


def execute_isolated(engine, run_seed, cfg=None, ops=None, prelude_seeds=None, keep_events=False, wall=30):
    def job():
        run_prelude(engine, prelude_seeds, wall)
        r = execute(engine, run_seed, cfg, ops, keep_events=keep_events, wall=wall)
        r['sigs'] = sorted(r['sigs'])
        return r
    return in_fork(job, timeout=wall * (2 + len(prelude_seeds or [])) + 30)


# --------------------------------------------------------------------------
# minimisation (delta debugging over the op list, then per-op simplification)

def minimise(engine, run_seed, cfg, ops, target_sig, budget=300, wall=30, prelude_seeds=None):
    """Shrinks `ops` while a violation with the same (clause, site, klass)
    persists.  Every candidate runs in a fresh fork (after the prelude, if any).
    Returns (ops, result_of_last_failing_execution, executions)."""
    used = [0]

    def fails(cand):
        if used[0] >= budget:
            return None
        used[0] += 1
        try:
            r = execute_isolated(engine, run_seed, cfg, cand, prelude_seeds=prelude_seeds, wall=wall)
        except HarnessError:
            return None
        except Exception:           # noqa: BLE001 - candidate made the harness trip
            return None
        v = r['violation']
        if v and (v['clause'], v['site'], v['klass']) == tuple(target_sig):
            return r
        return None

    best = fails(ops)
    if best is None:
        return ops, None, used[0]
    ops = list(best['ops'])         # ops after the violating one were never run

    n = 2
    while len(ops) >= 2 and used[0] < budget:
        chunk = max(1, len(ops) // n)
        reduced = False
        for i in range(0, len(ops), chunk):
            cand = ops[:i] + ops[i + chunk:]
            if not cand:
                continue
            r = fails(cand)
            if r is not None:
                ops, best = list(r['ops']), r
                n = max(n - 1, 2)
                reduced = True
                break
        if not reduced:
            if chunk == 1:
                break
            n = min(len(ops), n * 2)

    changed = True
    while changed and used[0] < budget:
        changed = False
        for i in range(len(ops)):
            for s in engine.simplify(ops[i]):
                cand = ops[:i] + [jsonable(s)] + ops[i + 1:]
                r = fails(cand)
                if r is not None:
                    ops, best = list(r['ops']), r
                    changed = True
                    break
    return ops, best, used[0]
