"""Reader-side seams: the kinds of source a caller may hand to atomman.

ChunkedRaw is a seekable binary stream that delivers *short reads*: each
read()/readinto() returns at most the next chunk size from a recorded plan
(cycled), never more than asked for.  Short reads are legal for raw streams
(io.RawIOBase contract); readers must loop or go through a buffer.
"""

import io
import os


class ChunkedRaw(io.RawIOBase):

    def __init__(self, data, chunks, fail_at=None, fail_once=False):
        super().__init__()
        self._d = bytes(data)
        self._p = 0
        self._chunks = [max(1, int(c)) for c in chunks] or [1]
        self._k = 0
        self.short_reads = 0
        # a bad sector: delivering the byte at offset fail_at raises EIO (every time, or only the first time)
        self._fail_at = None if fail_at is None else int(fail_at)
        self._fail_once = bool(fail_once)
        self.io_errors = 0

    def readable(self):
        return True

    def seekable(self):
        return True

    def writable(self):
        return False

    def tell(self):
        return self._p

    def seek(self, off, whence=0):
        if whence == 0:
            p = off
        elif whence == 1:
            p = self._p + off
        else:
            p = len(self._d) + off
        if p < 0:
            raise ValueError('negative seek position')
        self._p = p
        return p

    def readinto(self, b):
        want = len(b)
        if want == 0 or self._p >= len(self._d):
            return 0
        c = self._chunks[self._k % len(self._chunks)]
        self._k += 1
        n = min(want, c, len(self._d) - self._p)
        if self._fail_at is not None and self._p <= self._fail_at < self._p + n:
            if self._p == self._fail_at:
                self.io_errors += 1
                if self._fail_once:
                    self._fail_at = None
                import errno
                raise OSError(errno.EIO, 'simulated I/O error at byte %d' % self._p)
            n = self._fail_at - self._p          # deliver what lies before the bad byte first
        if n < min(want, len(self._d) - self._p):
            self.short_reads += 1
        b[:n] = self._d[self._p:self._p + n]
        self._p += n
        return n

    def readall(self):
        if self._fail_at is not None and self._fail_at >= self._p:
            out = bytearray()
            while True:
                b = bytearray(65536)
                k = self.readinto(b)
                if not k:
                    return bytes(out)
                out += b[:k]
        out = self._d[self._p:]
        self._p = len(self._d)
        return out


SOURCE_KINDS = ['text', 'path', 'bytesio', 'chunked', 'buffered']


def make_source(kind, data, scratch, name, chunks=(7, 1, 64, 3), bufsize=16, fail_at=None, fail_once=False):
    """Returns (object to hand to the reader, closer, stream-or-None).
    `data` is text (str), or bytes when the content is not a whole number of characters (then not for kind 'text')."""
    raw = data if isinstance(data, bytes) else data.encode('utf-8')
    if kind == 'text':
        return data, (lambda: None), None
    if kind == 'path':
        p = os.path.join(scratch, name)
        with open(p, 'wb') as f:
            f.write(raw)
        return p, (lambda: None), None
    if kind == 'bytesio':
        s = io.BytesIO(raw)
        return s, s.close, s
    if kind == 'chunked':
        s = ChunkedRaw(raw, chunks, fail_at, fail_once)
        return s, s.close, s
    if kind == 'buffered':
        r = ChunkedRaw(raw, chunks, fail_at, fail_once)
        s = io.BufferedReader(r, buffer_size=max(1, int(bufsize)))
        return s, s.close, r
    raise ValueError(kind)
