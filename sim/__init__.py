"""Deterministic simulation with fault injection for usnistgov/atomman."""
