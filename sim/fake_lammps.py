"""FakeLammps: the stub that stands in for the LAMMPS executable.

A *spec* (a small JSON-able dict, part of the recorded operation) fully
determines what one LAMMPS invocation prints; nothing here draws from the run's
PRNG.  render(spec) returns the log-file text, the screen text and a list of
marks (byte offsets with a class) that the kill placement uses.

The layout follows DESIGN.md Appendix B.  Only forms the documented layout
contains are produced: no warnings between thermo rows, no multi-partition
logs, no yaml/multi thermo style, balanced quotes in echoed lines.
"""

import random
import re

MEM_BANNERS = [
    'Per MPI rank memory allocation (min/avg/max) = %.4g | %.4g | %.4g Mbytes',
    'Memory usage per processor = %.6g Mbytes',
]

INT_KEYS = ['Atoms', 'Elapsed', 'Elaplong', 'Nbuild', 'Ndanger', 'Part', 'Bonds', 'Angles']
FLOAT_KEYS = ['Temp', 'Press', 'PotEng', 'KinEng', 'TotEng', 'Enthalpy', 'E_vdwl', 'E_coul', 'E_pair', 'E_bond', 'E_angle',
              'E_dihed', 'E_impro', 'E_mol', 'E_long', 'E_tail', 'Volume', 'Density', 'Lx', 'Ly', 'Lz', 'Xlo', 'Xhi', 'Ylo',
              'Yhi', 'Zlo', 'Zhi', 'Xy', 'Xz', 'Yz', 'Pxx', 'Pyy', 'Pzz', 'Pxy', 'Pxz', 'Pyz', 'Fmax', 'Fnorm', 'Dt', 'Time',
              'CPU', 'T/CPU', 'S/CPU', 'CPULeft', 'Cella', 'Cellb', 'Cellc', 'CellAlpha', 'CellBeta', 'CellGamma',
              'c_pe', 'c_msd[4]', 'c_1[1]', 'c_1[2]', 'f_avg', 'f_2[3]', 'v_strain', 'v_lx0', 'c_peatom', 'v_p2']
ROW_STYLES = ['old', 'new', 'e', 'f', 'g15', 'oldtrail']
# (step format, float format, separator before each float, trailing)
_ROWFMT = {
    'old': ('%8d', '%12.8g', ' ', ''),
    'oldtrail': ('%8d', '%12.8g', ' ', ' '),
    'new': ('%10d', '%-14.8g', ' ', ''),
    'e': ('%8d', '%14.6e', ' ', ''),
    'f': ('%8d', '%12.8f', ' ', ''),
    'g15': ('%d', '%.15g', ' ', ''),
}

BANNERS = ['29 Oct 2020', '3 Mar 2020', '29 Sep 2021 - Update 3', '23 Jun 2022 - Update 4', '2 Aug 2023 - Update 1',
           '16 Feb 2016', '7 Aug 2019', '7 Feb 2024 - Development - patch_7Feb2024-102-g1a2b3c', '15 Jun 2023',
           '30 Jul 2016', '22 Dec 2022', '5 May 2020', '12 Dec 2018', '31 Mar 2017', '1 Jan 2015', '27 Nov 2018']

ECHO_LINES = ['units metal', 'atom_style atomic', 'boundary p p p', 'read_data atom.dat', 'pair_style eam/alloy',
              'pair_coeff * * Al.eam.alloy Al', '# a comment line', '', '   ', '\t', 'thermo 100', 'thermo_style custom step temp pe',
              'variable lx0 equal lx', 'print "relaxing the cell"', "print 'done with setup'", 'fix 1 all nve', 'timestep 0.001',
              'velocity all create 300.0 12345', 'minimize 0.0 1e-8 1000 10000', 'run 1000', 'dump 1 all custom 100 a.dump id x y z',
              'thermo_modify format float %.13e', 'restart 500 a.restart b.restart', '  # indented comment', 'mass 1 26.98',
              'neighbor 2.0 bin', 'fix 2 all box/relax aniso 0.0', 'variable s equal "step*dt"', 'region box block 0 1 0 1 0 1',
              'change_box all triclinic', 'write_restart final.restart', 'read_restart a.restart', 'reset_timestep 0',
              'compute pe all pe/atom', 'min_modify dmax 0.01', 'log none', 'echo both',
              # input scripts are UTF-8 text: comments, labels and paths with characters beyond ASCII are echoed as they are
              '# a = 4.05 Å, ΔT = ±5 K', 'read_data /home/rené/données/atom.dat', 'print "σ_xx = 1.5 GPa → relaxed"', '# 緩和計算',
              # characters that Python's str.splitlines() takes for line ends although neither LAMMPS nor a file does
              'print "page one\x0cpage two"', '# section\u2028continued', 'print "a\x85b"', '# v\x0btab', '# fs\x1csep \u2029 par']

WARNINGS = ['WARNING: Using a manybody potential with bonds/angles/dihedrals and special_bond exclusions (src/pair.cpp:243)',
            'WARNING: No fixes with time integration, atoms won\'t move (src/verlet.cpp:60)',
            'WARNING: Restart file used different # of processors: 4 vs. 1 (src/read_restart.cpp:626)',
            'WARNING: Temperature for thermo pressure is not for group all (src/thermo.cpp:527)']

ERRORS = [('Lost atoms: original 4000 current 3998', 'src/thermo.cpp:481', 'run 10000'),
          ('Unknown pair style eam/fs/gpu', 'src/force.cpp:275', 'pair_style eam/fs/gpu'),
          ('Out of range atoms - cannot compute PPPM', 'src/KSPACE/pppm.cpp:1918', 'run 5000'),
          ('Cannot open file atom.dat: No such file or directory', 'src/read_data.cpp:367', 'read_data atom.dat')]


def _fval(r, kind):
    """A value to print in a float column."""
    k = kind
    if k == 0:
        return r.uniform(-10, 10)
    if k == 1:
        return r.uniform(-1, 1) * 10 ** r.randint(-12, 12)
    if k == 2:
        return 0.0
    if k == 3:
        return float(r.randint(-50, 5000))
    if k == 4:
        return r.uniform(-1, 1) * 10 ** r.choice([-300, -200, -100, 100, 200, 300])
    if k == 5:
        return r.choice(['nan', '-nan', 'inf', '-inf'])
    return r.uniform(0, 1e6)


def block_rows(b):
    """The tokens LAMMPS prints for block `b`: list of rows, each a list of strings, and the formatted lines."""
    r = random.Random(b['vseed'])
    cols = b['cols']
    stepfmt, ffmt, sep, trail = _ROWFMT[b.get('rowstyle', 'old')]
    # per-column value class, fixed for the block
    cls = {}
    for c in cols:
        if c in ('Step',) or c in INT_KEYS:
            continue
        x = r.random()
        cls[c] = (0 if x < .45 else 1 if x < .65 else 2 if x < .72 else 3 if x < .82 else 4 if x < .9 else 6)
        if b.get('nonfinite') and r.random() < 0.3:
            cls[c] = 5
    rows, lines = [], []
    natoms = r.randint(1, 500000)
    nbuild = 0
    for k in range(b['n']):
        step = b['start'] + k * b['every']
        toks = []
        for c in cols:
            if c == 'Step':
                toks.append(stepfmt % step)
            elif c in ('Elapsed', 'Elaplong'):
                toks.append(stepfmt % (step - b['start']))
            elif c == 'Atoms':
                toks.append(stepfmt % natoms)
            elif c in INT_KEYS:
                nbuild += r.randint(0, 3)
                toks.append(stepfmt % nbuild)
            else:
                v = _fval(r, cls[c])
                if isinstance(v, str):      # what printf gives for a non-finite double
                    w = re.match(r'%(-?)(\d*)', ffmt)
                    toks.append(('%' + w.group(1) + (w.group(2) or '') + 's') % v)
                else:
                    toks.append(ffmt % v)
        line = toks[0] + ''.join(sep + t for t in toks[1:]) + trail
        rows.append([t.strip() for t in toks])
        lines.append(line)
    return rows, lines


def header_line(b):
    style = b.get('rowstyle', 'old')
    cols = b['cols']
    if style == 'new':
        return '   ' + ' '.join('%-14s' % c if i else '%7s' % c for i, c in enumerate(cols)).rstrip()
    if style in ('old', 'oldtrail', 'e', 'f'):
        return ' '.join(cols) + ' '
    return ' '.join(cols)


def _perf_new(r, loop):
    out = ['MPI task timing breakdown:',
           'Section |  min time  |  avg time  |  max time  |%varavg| %total',
           '---------------------------------------------------------------']
    for name in ('Pair', 'Neigh', 'Comm', 'Output', 'Modify'):
        t = r.uniform(0, loop / 5)
        out.append('%-7s | %-10.5g | %-10.5g | %-10.5g |%6.1f |%6.2f' % (name, t * .9, t, t * 1.1, r.uniform(0, 9), 100 * t / (loop + 1e-9)))
    out.append('%-7s | %-10s | %-10.4g | %-10s |%6s |%6.2f' % ('Other', '', r.uniform(0, loop / 9), '', '', r.uniform(0, 9)))
    return out


def _perf_old(r, loop):
    out = []
    for name in ('Pair ', 'Neigh', 'Comm ', 'Outpt', 'Other'):
        t = r.uniform(0, loop / 5)
        out.append('%s time (%%) = %.6g (%.4g)' % (name, t, 100 * t / (loop + 1e-9)))
    return out


def render(spec):
    """Returns {'log': str, 'screen': str, 'marks': [(offset_in_log, class)], 'steps': int}."""
    r = random.Random(spec.get('tseed', 0))
    L = []          # (line, tag, to_screen)

    def put(line, tag, screen=True):
        L.append((line, tag, screen))

    if spec.get('screen_junk'):
        put('[node17:40123] mca_base_component_repository_open: unable to open mca_btl_openib', 'junk', 'only')
    if spec.get('banner') is not None:
        put('LAMMPS (%s)' % spec['banner'], 'banner')
    if spec.get('omp'):
        put('OMP_NUM_THREADS environment is not set. Defaulting to 1 thread. (src/comm.cpp:98)', 'pre')
        put('  using 1 OpenMP thread(s) per MPI task', 'pre')
    steps = 0
    for bi, b in enumerate(spec['blocks']):
        for e in b.get('echo') or []:
            put(e, 'echo', False)
        if b.get('warn') is not None:
            put(WARNINGS[b['warn'] % len(WARNINGS)], 'pre')
        if b.get('neigh'):
            put('Neighbor list info ...', 'pre')
            put('  update every 1 steps, delay 10 steps, check yes', 'pre')
            put('  max neighbors/atom: 2000, page size: 100000', 'pre')
            put('  master list distance cutoff = 8.28721', 'pre')
            put('  ghost atom cutoff = 8.28721', 'pre')
            put('  binsize = 4.1436, bins = 10 10 10', 'pre')
        if b.get('setup'):
            put('Setting up %s ...' % ('cg style minimization' if b.get('kind') == 'min' else 'Verlet run'), 'pre')
            put('  Unit style    : metal', 'pre')
            put('  Current step  : %d' % b['start'], 'pre')
            put('  Time step     : 0.001', 'pre')
        m = MEM_BANNERS[b.get('mem', 0) % 2]
        put(m % ((3.2 + bi, 3.3 + bi, 3.4 + bi) if b.get('mem', 0) % 2 == 0 else (3.25 + bi,)), 'mem')
        put(header_line(b), 'header')
        rows, lines = block_rows(b)
        for ln in lines:
            put(ln, 'row')
        if b['n'] > 0:
            steps += (b['n'] - 1) * b['every']
        loop = r.uniform(0.001, 500)
        put('Loop time of %.6g on %d procs for %d steps with %d atoms' % (loop, r.choice([1, 4, 16]),
                                                                          max(0, (b['n'] - 1) * b['every']), r.randint(1, 99999)), 'loop')
        put('', 'post')
        if b.get('kind') == 'min':
            put('Minimization stats:', 'post')
            put('  Stopping criterion = linesearch alpha is zero', 'post')
            put('  Energy initial, next-to-last, final = ', 'post')
            put('        -13439.9999999     -13440.0000001     -13440.0000001', 'post')
            put('  Force two-norm initial, final = 1.33e-11 1.04e-12', 'post')
            put('  Force max component initial, final = 2.1e-12 1.3e-13', 'post')
            put('  Final line search alpha, max atom move = 1 1.3e-13', 'post')
            put('  Iterations, force evaluations = %d %d' % (b['n'], 2 * b['n']), 'post')
            put('', 'post')
        else:
            if b.get('perfline'):
                put('Performance: %.3f ns/day, %.3f hours/ns, %.3f timesteps/s' % (r.uniform(1, 99), r.uniform(.1, 9), r.uniform(10, 9999)), 'post')
                put('%.1f%% CPU use with %d MPI tasks x %d OpenMP threads' % (r.uniform(50, 100), r.choice([1, 4]), 1), 'post')
                put('', 'post')
        perf = spec.get('perfstyle', 'new') if b.get('perf') else None
        if perf == 'new':
            for ln in _perf_new(r, loop):
                put(ln, 'perf')
            put('', 'post')
        elif perf == 'old':
            for ln in _perf_old(r, loop):
                put(ln, 'perf')
            put('', 'post')
        put('Nlocal:    %d ave %d max %d min' % (4000, 4000, 4000), 'post')
        put('Histogram: 1 0 0 0 0 0 0 0 0 0', 'post')
        put('Nghost:    %d ave %d max %d min' % (5841, 5841, 5841), 'post')
        put('Histogram: 1 0 0 0 0 0 0 0 0 0', 'post')
        put('Neighs:    %d ave %d max %d min' % (280000, 280000, 280000), 'post')
        put('Histogram: 1 0 0 0 0 0 0 0 0 0', 'post')
        put('', 'post')
        put('Total # of neighbors = 280000', 'post')
        put('Ave neighs/atom = 70', 'post')
        put('Neighbor list builds = %d' % r.randint(0, 50), 'post')
        put('Dangerous builds = 0', 'post')
    for e in spec.get('echo_tail') or []:
        put(e, 'echo', False)
    err = spec.get('error')
    if err is not None:
        msg, where, cmd = ERRORS[err % len(ERRORS)]
        put('ERROR: %s (%s)' % (msg, where), 'error')
        put('Last command: %s' % cmd, 'error')
    elif spec.get('tail', True):
        put('Total wall time: %d:%02d:%02d' % (r.randint(0, 30), r.randint(0, 59), r.randint(0, 59)), 'tail')

    log_parts, scr_parts, marks = [], [], []
    off = 0
    echo_to_screen = bool(spec.get('echo_screen'))
    nl = '\r\n' if spec.get('crlf') else '\n'       # a Windows build writes its log in text mode
    for line, tag, screen in L:
        if screen != 'only':
            marks.append((off, tag))
            log_parts.append(line + nl)
            off += len((line + nl).encode('utf-8'))
        if screen is True or screen == 'only' or (tag == 'echo' and echo_to_screen):
            scr_parts.append(line + nl)
    marks.append((off, 'end'))
    return {'log': ''.join(log_parts), 'screen': ''.join(scr_parts), 'marks': marks, 'steps': steps}


# --------------------------------------------------------------------------
# the moment the process dies, and what the disk keeps

KILL_PLACES = ['uniform', 'banner', 'after_mem', 'in_mem', 'in_header', 'after_header', 'row_boundary', 'mid_row', 'in_step',
               'in_loop', 'after_loop', 'in_perf', 'between_blocks', 'in_char', 'in_char']


def place_kill(marks, place, u1, u2, data=b''):
    """Byte offset in the log text at which the process has written `offset` bytes when it dies.
    u1, u2 in [0,1) are literal numbers recorded in the operation (no PRNG here).
    'in_char' stops between the bytes of one multi-byte character (a non-ASCII path, comment or print string)."""
    if place == 'in_char':
        c = [i for i, b in enumerate(data) if 0x80 <= b <= 0xBF]
        if c:
            return c[int(u1 * len(c))]
    total = marks[-1][0]
    spans = [(marks[i][0], marks[i + 1][0], marks[i][1]) for i in range(len(marks) - 1)]

    def pick(tag):
        c = [s for s in spans if s[2] == tag]
        return c[int(u1 * len(c))] if c else None
    if place == 'banner':
        s = pick('banner')
        if s:
            return s[0] + int(u2 * (s[1] - s[0] - 1))
    elif place == 'after_mem':
        s = pick('mem')
        if s:
            return s[1]
    elif place == 'in_mem':
        s = pick('mem')
        if s:
            return s[0] + 1 + int(u2 * (s[1] - s[0] - 2))
    elif place == 'in_header':
        s = pick('header')
        if s:
            return s[0] + 1 + int(u2 * (s[1] - s[0] - 2))
    elif place == 'after_header':
        s = pick('header')
        if s:
            return s[1]
    elif place == 'row_boundary':
        s = pick('row')
        if s:
            return s[1]
    elif place == 'mid_row':
        s = pick('row')
        if s:
            return s[0] + 1 + int(u2 * (s[1] - s[0] - 2))
    elif place == 'in_step':
        s = pick('row')
        if s:
            return s[0] + 1 + int(u2 * min(12, s[1] - s[0] - 2))
    elif place == 'in_loop':
        s = pick('loop')
        if s:
            return s[0] + 1 + int(u2 * (s[1] - s[0] - 2))
    elif place == 'after_loop':
        s = pick('loop')
        if s:
            return s[1]
    elif place == 'in_perf':
        s = pick('perf')
        if s:
            return s[0] + int(u2 * (s[1] - s[0]))
    elif place == 'between_blocks':
        s = pick('post')
        if s:
            return s[0] + int(u2 * (s[1] - s[0]))
    return int(u1 * (total + 1))


def survive(data, offset, mode, bufsize):
    """Bytes that reached the disk when the process died after writing `offset` bytes of `data`.
    mode 'block': stdio full buffering, only whole buffers were written;
    mode 'line' : thermo_modify flush yes / line buffering, every completed line was written;
    mode 'raw'  : unbuffered (or the kernel lost nothing): exactly `offset` bytes."""
    offset = max(0, min(offset, len(data)))
    if mode == 'block':
        keep = (offset // bufsize) * bufsize
    elif mode == 'line':
        keep = data.rfind(b'\n', 0, offset) + 1
    else:
        keep = offset
    return data[:keep]
