"""Reference model of a LAMMPS log: an independent tokeniser over the bytes a
reader is given, and the specification of flatten().

Nothing in here is shared with atomman: no pandas, no line-number arithmetic.
A log is scanned line by line; a line containing a memory-usage banner opens a
block, the next non-blank line is its header, every following non-blank line is
a row until a line containing 'Loop time of'.  The last line of the text is
*in flight* when it is not newline-terminated.
"""

import datetime
import math

MEM_TRIGGERS = ('Memory usage per processor =', 'Per MPI rank memory allocation (min/avg/max) =')
END_TRIGGER = 'Loop time of'
MONTHS = {m: i + 1 for i, m in enumerate(['Jan', 'Feb', 'Mar', 'Apr', 'May', 'Jun', 'Jul', 'Aug', 'Sep', 'Oct', 'Nov', 'Dec'])}


class Block:
    __slots__ = ('cols', 'rows', 'torn_row', 'header_torn', 'complete', 'src', 'perf', 'torn_full')

    def __init__(self):
        self.cols = None            # list of printed column names
        self.rows = []              # complete rows: list of token lists
        self.torn_row = None        # tokens of an unterminated last line, or None
        self.header_torn = False    # header line itself not newline-terminated
        self.complete = False       # 'Loop time of' line seen
        self.src = None
        self.perf = None            # 'new' / 'old' / None: a complete timing breakdown follows
        self.torn_full = False      # False: unknown; None: the line being written was not a data row; list: its complete tokens

    def steps(self):
        """Step values of the complete rows (ints), or None when there is no Step column."""
        if 'Step' not in self.cols:
            return None
        k = self.cols.index('Step')
        return [int(r[k]) for r in self.rows]

    def torn_step(self):
        """What the in-flight row's Step cell parses to (float), or None."""
        if self.torn_row is None or 'Step' not in self.cols:
            return None
        k = self.cols.index('Step')
        if k >= len(self.torn_row):
            return None
        try:
            return float(self.torn_row[k])
        except ValueError:
            return None

    def describe(self):
        return {'cols': self.cols, 'nrows': len(self.rows), 'torn_row': self.torn_row, 'header_torn': self.header_torn,
                'complete': self.complete}


def _blank(line):
    return len(line.split()) == 0


def parse(text, src=None):
    """text: str.  Returns {'blocks': [Block], 'version': str|None, 'date': date|None, 'banner_torn': bool,
    'has_banner': bool}."""
    lines = text.split('\n')
    ends_nl = text.endswith('\n')
    if ends_nl:
        lines.pop()             # the empty string after the final newline
    nlines = len(lines)
    blocks = []
    state = None
    cur = None
    version = None
    date = None
    has_banner = False
    banner_torn = False
    pending_perf = None
    for idx, line in enumerate(lines):
        terminated = ends_nl or idx < nlines - 1
        if _blank(line):
            continue
        if line.startswith('LAMMPS (') and not has_banner:
            has_banner = True
            if not line.strip().endswith(')'):
                banner_torn = True          # stops before its closing parenthesis: not a banner
            else:
                s = line.strip()
                version = s[8:-1]
                date = _date_of(version)
        if state == 'rows':
            if END_TRIGGER in line:
                cur.complete = True
                state = None
            elif any(t in line for t in MEM_TRIGGERS):
                # not produced by the generator: a new banner inside a table
                raise ValueError('memory banner inside a thermo table')
            elif terminated:
                cur.rows.append(line.split())
            else:
                cur.torn_row = line.split()
            continue
        if state == 'header':
            cur = Block()
            cur.src = src
            cur.cols = line.split()
            cur.header_torn = not terminated
            blocks.append(cur)
            state = 'rows'
            continue
        if any(t in line for t in MEM_TRIGGERS):
            state = 'header'
            continue
        # timing breakdowns (not part of the property; recorded for probes only)
        if blocks and 'MPI task timing breakdown' in line:
            pending_perf = ('new', blocks[-1])
        elif blocks and 'Pair  time (%)' in line:
            pending_perf = ('old', blocks[-1])
        elif pending_perf and 'Nlocal:' in line and terminated:
            pending_perf[1].perf = pending_perf[0]
            pending_perf = None
    return {'blocks': blocks, 'version': version, 'date': date, 'banner_torn': banner_torn, 'has_banner': has_banner}


def _date_of(version):
    try:
        d = version.split('-')[0].split()
        return datetime.date(int(d[2]), MONTHS[d[1]], int(d[0]))
    except (IndexError, KeyError, ValueError):
        return None


# --------------------------------------------------------------------------
# cell comparison

def tok_value(tok):
    """float value of a printed token the way C strtod reads it."""
    t = tok.strip().lower()
    if t in ('nan', '-nan', '+nan'):
        return float('nan')
    return float(t)


def cell_value(cell):
    """Numeric value of a table cell, whatever dtype a torn neighbour forced on its column."""
    if cell is None:
        return float('nan')
    if isinstance(cell, str):
        return tok_value(cell)
    return float(cell)


def ulps(a, b):
    if a == b:
        return 0.0
    if math.isnan(a) and math.isnan(b):
        return 0.0
    if math.isnan(a) or math.isnan(b) or math.isinf(a) or math.isinf(b):
        return float('inf')
    return abs(a - b) / max(math.ulp(a), math.ulp(b))


# --------------------------------------------------------------------------
# flatten specification

def threshold_merge(blocks, style):
    """The documented shortcut ("rows after the last merged step" / "rows before this run's first step")
    applied to the complete rows.  Where its result equals flatten_expect() the shortcut and the
    statement's set semantics coincide and the real table is checked against the statement; elsewhere
    (timestep resets, a later run that ends below what is already merged and is not covered again) the
    tutorial reserves style='all' and nothing is demanded of first/last."""
    merged = []
    for b in blocks:
        k = b.cols.index('Step')
        rows = [(int(r[k]), b, r) for r in b.rows]
        if not rows:
            continue
        if not merged:
            merged = rows
        elif style == 'first':
            mx = max(s for s, _, _ in merged)
            merged = merged + [x for x in rows if x[0] > mx]
        else:
            mn = min(s for s, _, _ in rows)
            merged = [x for x in merged if x[0] < mn] + rows
    return merged


def shortcut_is_exact(blocks, style):
    exp = flatten_expect(blocks, style)
    got = threshold_merge(blocks, style)
    if len(got) != len(exp):
        return False
    for s, b, r in got:
        e = exp.get(s)
        if e is None or e[0] is not b or e[1] is not r:
            return False
    # steps inside one run must be strictly increasing for "a timestep" to be well defined
    for b in blocks:
        st = b.steps()
        if any(y <= x for x, y in zip(st, st[1:])):
            return False
    return True


def flatten_expect(blocks, style):
    """Expected content of the merged table as {step: (block, row tokens)} for first/last, or the list of
    (block, row) for all.  Only complete rows are specified."""
    if style == 'all':
        out = []
        for b in blocks:
            for r in b.rows:
                out.append((b, r))
        return out
    exp = {}
    for b in blocks:
        k = b.cols.index('Step')
        for r in b.rows:
            s = int(r[k])
            if style == 'first':
                exp.setdefault(s, (b, r))
            else:
                exp[s] = (b, r)
    return exp
