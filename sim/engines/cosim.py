"""C19 — a LAMMPS log is read back run by run (co-simulation with a stub LAMMPS).

Real code: atomman.lammps.run, Log, Simulation, LammpsError, uber_open_rmode,
pandas' reader.  Stub: the LAMMPS executable (FakeLammps behind the
`subprocess` attribute of the atomman.lammps.run module), its stdio buffer, the
moment the process dies, the reader's source object.

One run is a history in one scratch directory: invocations of run() (fresh or
restart, log file or screen, clean / killed at a byte / error exit), reads of
whatever lies in the directory or of logs synthesised elsewhere into a pool of
Log objects (append or replace; text, path, BytesIO, short-read raw stream,
buffered stream), and flatten() calls.  After every step the directory and
every touched Log are compared with the reference model (logmodel.py).
"""

import io
import os
import re
import shutil
import sys
import tempfile
import warnings

from .. import fake_lammps as fl
from .. import logmodel as lm
from .. import streams
from ..kernel import Engine, Violation, HarnessError, sut_site

import atomman as am                      # noqa: F401
import atomman.lammps as lmp
import pandas as pd

ULP = 0
LOGNAMES = ['log.lammps', 'log.lammps', 'log.lammps', 'md.log', 'sim.out.txt', 'logfile', 'relax-2.lammps', 'sim/log.lammps']
MAX_LOGS = 4
# what a caller may hand to Log / Log.read: the five kinds of sim/streams.py plus a pathlib.Path, a bytes object,
# an open binary file and an open unbuffered (raw) binary file
SOURCE_KINDS = streams.SOURCE_KINDS + ['pathobj', 'bytes', 'fileobj', 'rawfile']


class _Completed:
    def __init__(self, args, returncode, stdout, stderr):
        self.args, self.returncode, self.stdout, self.stderr = args, returncode, stdout, stderr


class _CalledProcessError(Exception):
    def __init__(self, returncode, cmd, output=None, stderr=None):
        super().__init__(returncode, cmd)
        self.returncode, self.cmd, self.output, self.stderr = returncode, cmd, output, stderr
        self.stdout = output


class FakeSubprocess:
    """Stands in for the `subprocess` module inside atomman.lammps.run."""
    CalledProcessError = _CalledProcessError
    PIPE = -1

    def __init__(self):
        self.plan = None        # what the next invocation prints / how it ends
        self.calls = []

    def run(self, command, input=None, check=False, capture_output=False, text=None, **kw):
        plan, self.plan = self.plan, None
        if plan is None:
            raise HarnessError('FakeLammps invoked without a plan')
        argv = list(command)
        opt = {}
        for flag in ('-log', '-in', '-screen', '-suffix'):
            if flag in argv:
                k = argv.index(flag)
                opt[flag] = argv[k + 1] if k + 1 < len(argv) else None
        target = opt.get('-log', 'log.lammps')
        self.calls.append({'argv': argv, 'input': input, 'target': target})
        if target != 'none':
            with open(target, 'wb') as f:       # LAMMPS opens its log with "w"
                f.write(plan['log_bytes'])
        out = '' if opt.get('-screen') == 'none' else plan['screen']
        if plan['rc'] != 0 and check:
            raise _CalledProcessError(plan['rc'], argv, output=out, stderr='')
        return _Completed(argv, plan['rc'], out, '')


class LogModel:
    def __init__(self):
        self.blocks = []        # expected blocks, optional ones included
        self.present = []       # blocks in 1:1 correspondence with log.simulations (resolved by check)
        self.extra = {}         # id(block) -> True when the in-flight row was parsed as a row
        self.versions = []      # version (or None) of every text read since the last reset
        self.torn_banner = False
        self.reads = 0

    def reset(self):
        self.__init__()


def _dec(data):
    """Surviving bytes as text for the model.  A kill can split a multi-byte character; the fragment belongs to the
    in-flight last line, so it is dropped here (the reader is still given the raw bytes)."""
    try:
        return data.decode('utf-8')
    except UnicodeDecodeError:
        return data.decode('utf-8', 'ignore')


def _split_name(name):
    base = os.path.basename(name)
    stem, ext = os.path.splitext(base)
    return stem, ext


class CosimEngine(Engine):
    prop = 'C19'
    name = 'cosim'
    max_ops = 16
    expected_probes = ['restart_rotation', 'rotation_depth_ge_2', 'rotation_depth_ge_3', 'kill_after_mem_banner', 'kill_in_header',
                       'kill_mid_row', 'kill_in_step_token', 'kill_row_boundary', 'kill_in_loop_line', 'kill_in_perf_table',
                       'kill_in_banner', 'banner_in_flight', 'kill_inside_a_multibyte_character', 'kill_lost_everything', 'error_exit', 'read_truncated_log', 'read_append_true_nonempty',
                       'read_append_false_nonempty', 'read_same_file_twice', 'short_read_source', 'buffered_source',
                       'path_source', 'text_source', 'real_file_object_source', 'crlf_log', 'io_error_read_raised', 'refused_read_raised', 'path_of_a_file_that_does_not_exist_yet', 'differential_source_kinds', 'flatten_first_checked',
                       'flatten_last_checked', 'flatten_all_checked', 'flatten_overlap_checked',
                       'flatten_indices', 'whitespace_only_echo_line', 'perf_new', 'perf_old', 'perf_none',
                       'block_without_rows', 'screen_output_read', 'logfile_read_by_run',
                       'mixed_column_sets', 'nonfinite_tokens', 'int_beyond_32bit', 'two_versions_in_one_log_object',
                       'step_not_first_column', 'restart_ends_below_previous', 'logfile_in_subdirectory_rotated', 'recovery_after_crash_in_one_call', 'clean_run_covers_whole_history']
    rule = ('Each run is a history of up to 16 operations in one fresh scratch directory. invoke: atomman.lammps.run() with the '
            'stub LAMMPS behind it (script or script file, restart script or not, one of six log-file names, a log file in a sub-directory, or no log file, '
            'screen on/off, mpi prefix, suffix); the stub prints a log from the documented layout (16 version banners, either '
            'memory banner, 0-4 run/minimize blocks, Step plus 0-11 keywords from a 68-keyword vocabulary or generated compute/fix/variable IDs over [A-Za-z0-9_] with optional indices, Step anywhere, '
            'six row formats, 0-60 rows, integers beyond 2^31, non-finite tokens, echoed script lines including empty, '
            'whitespace-only and non-ASCII ones (a kill may land between the bytes of one character), balanced quotes, warnings in the preamble only, new-style / old-style / no timing breakdown, '
            'minimisation statistics) and ends cleanly, with ERROR + exit 1, or is killed after b bytes (14 placement classes, '
            'half of them aimed at structure boundaries) with the disk keeping whole stdio buffers (512-8192 B), whole lines, '
            'or exactly b bytes. Step ranges follow LAMMPS restarts: consecutive blocks share their boundary step or are '
            'disjoint; a restart starts on a step the surviving log printed (same lattice) or beyond everything it printed; one '
            'block in ten resets the timestep (then only flatten("all") is checked). read / new: Log.read or Log() on any file '
            'of the directory or on a log synthesised elsewhere, append True/False, given as text, bytes, path string, pathlib.Path, BytesIO, raw '
            'short-read stream, buffered stream, open file or open unbuffered file; one log in ten has CRLF line ends; three short-read streams in ten have a bad byte that raises EIO (always or once): the read may fail, the Log must then hold its old records plus at most a correct prefix of the new ones; flatten: style first/last/all with random firstindex/lastindex. One run in five has no '
            'kill or error. Not generated: warnings between thermo rows, multi-partition logs, yaml/multi thermo output, '
            'unbalanced quotes, duplicate column names, directories with foreign log-N files. Non-trivial run: a fault fired or '
            '>= 2 state-changing operations. distinct = distinct (files, blocks per file, kill class, reader kind, append '
            'pattern, flatten style, shape) signatures.')
    tolerances = {'cell value': 'float(cell) within %d ulp of float(printed token); NaN equals NaN' % ULP,
                  'column names, row count, block count, version string, date': 'exact',
                  'file contents after rotation': 'byte-exact',
                  'source-kind differential': 'DataFrame.equals (bit-identical)'}
    real_components = ['atomman.lammps.run (command line, rotation, re-read loop)', 'atomman.lammps.Log / Simulation (read, flatten)',
                       'atomman.lammps.LammpsError', 'potentials.tools.uber_open_rmode', 'pandas.read_csv / concat',
                       'the real filesystem under the scratch directory']
    stub_components = ['LAMMPS executable (FakeLammps behind atomman.lammps.run.subprocess)', 'its stdio buffer and the instant it dies',
                       'the caller (order of invocations, reads, flattens)', 'the reader source object (short reads)']
    assumptions = ['FakeLammps is written from the documented log layout; no LAMMPS binary exists in the sandbox to validate it',
                   'the last line of a file that is not newline-terminated is in flight: its row may be absent; if it is shown, each '
                   'cell is the value LAMMPS was printing (the simulator knows the unfinished line) or missing, never another number; '
                   'a block whose header line is in flight may be absent; a fragment of a multi-byte character belongs to that line',
                   'a read that raised (EIO, unopenable source) leaves the old records, or the old records plus a correct prefix of '
                   'the new ones, or - for append=False - nothing; a pathlib.Path that names no file must be refused',
                   'a version banner that is itself in flight (no newline) is not a banner: it must leave the version unset',
                   'after reads of logs with different banners any of the versions seen is accepted (the statement does not say which)',
                   'flatten first/last is checked on every selection of runs for which the documented shortcut (rows beyond the last '
                   'merged step / rows before this run\'s first step) and the statement\'s set semantics (each step once, from the '
                   'earliest / latest run printing it) coincide on the printed steps; timestep resets and uncovered tails are left '
                   'to style="all" as the tutorial says '
                   'and only for cells whose column the source run printed; rows whose Step equals an in-flight row\'s Step are exempt',
                   'timing breakdowns are not part of the statement: only that they do not disturb the thermo tables',
                   'run() raising after a killed or failed LAMMPS is expected and not checked; the directory contents are']

    # ------------------------------------------------------------------
    def config(self, ctx):
        r = ctx.rng
        return {'nops': r.randint(3, 16), 'logfile': r.choice(LOGNAMES), 'screen': r.random() < 0.5,
                'fault_free': r.random() < 0.2, 'banner': r.choice(fl.BANNERS), 'bufsize': r.choice([512, 1024, 4096, 8192]),
                'w_invoke': r.uniform(0.5, 2.0), 'w_read': r.uniform(0.3, 1.5), 'w_flat': r.uniform(0.3, 1.5),
                'maxrows': r.choice([3, 8, 20, 60]), 'cols_fixed': r.random() < 0.7, 'lammps': r.choice(['lmp', 'lmp_serial', '/opt/lammps/bin/lmp_mpi']),
                'mpi': r.choice([None, None, 'mpiexec -n 4']), 'script_file': r.random() < 0.4}

    def init(self, ctx, cfg):
        warnings.simplefilter('ignore')
        st = {'cfg': cfg, 'cwd0': os.getcwd(), 'scratch': tempfile.mkdtemp(prefix='atomman-verif-c19.'), 'files': {},
              'logs': [], 'models': [], 'nsynth': 0, 'invocations': 0, 'crashed': False, 'cols': None, 'kinds_used': set()}
        os.chdir(st['scratch'])
        # a log file in a sub-directory: where run() keeps the rotated logs is its own business, so for this mode the model
        # is neutral about names and places - the returned Log must cover the whole history in order, and every
        # invocation's surviving bytes must still exist, once, somewhere under the run directory
        st['subdir'] = '/' in cfg['logfile']
        st['series'] = []
        if st['subdir']:
            os.makedirs(os.path.dirname(cfg['logfile']), exist_ok=True)
        # surviving bytes -> what the process would have written had it lived (None when two different logs share the prefix)
        self._fullof = {}
        st['mod'] = sys.modules['atomman.lammps.run']
        st['real_subprocess'] = st['mod'].subprocess
        st['stub'] = FakeSubprocess()
        st['mod'].subprocess = st['stub']
        return st

    def cleanup(self, st):
        try:
            st['mod'].subprocess = st['real_subprocess']
        finally:
            os.chdir(st['cwd0'])
            shutil.rmtree(st['scratch'], ignore_errors=True)

    # ------------------------------------------------------------------
    # generation
    def _gen_cols(self, ctx, st):
        r = ctx.rng
        if st['cols'] is not None and st['cfg']['cols_fixed'] and r.random() < 0.85:
            return list(st['cols'])
        k = r.choice([0, 1, 2, 3, 4, 5, 6, 8, 11])
        pool = fl.INT_KEYS + fl.FLOAT_KEYS
        others = r.sample(pool, k)
        # user-defined compute / fix / variable IDs: any alphanumerics and underscores, optionally indexed
        alphabet = 'ABCDEFGHIJKLMNOPQRSTUVWXYZabcdefghijklmnopqrstuvwxyz0123456789_'
        for i in range(len(others)):
            if r.random() < 0.3:
                name = r.choice(['c_', 'f_', 'v_']) + ''.join(r.choice(alphabet) for _ in range(r.randint(1, 8)))
                if r.random() < 0.4:
                    name += '[%d]' % r.randint(1, 12)
                    if r.random() < 0.2:
                        name += '[%d]' % r.randint(1, 3)
                if name not in others and name not in fl.INT_KEYS:
                    others[i] = name
        if r.random() < 0.85:
            cols = ['Step'] + others
        else:
            cols = list(others)
            cols.insert(r.randint(0, len(cols)), 'Step')
        st['cols'] = list(cols)
        return cols

    def _gen_spec(self, ctx, st, prev_text, allow_fault):
        """prev_text: surviving text of the log this invocation continues (restart), or None."""
        r = ctx.rng
        cfg = st['cfg']
        nb = r.choice([0, 1, 1, 1, 2, 2, 3, 4])
        blocks = []
        last = None         # (steps list, every, torn_step) of the previous block
        if prev_text:
            try:
                pb = lm.parse(prev_text)['blocks']
            except ValueError:
                pb = []
            pb = [b for b in pb if b.cols and 'Step' in b.cols and b.rows]
            if pb:
                b = pb[-1]
                s = b.steps()
                ev = (s[1] - s[0]) if len(s) > 1 else r.choice([1, 10, 100])
                last = (s, ev, b.torn_step())
        big = r.random() < 0.08
        for bi in range(nb):
            n = r.choice([0, 1, 2, 3, 5, 8, 13, 21, 34, 60])
            n = min(n, cfg['maxrows'])
            if last is None:
                start = r.choice([0, 0, 0, 1000, 250000]) + (3_000_000_000 if big else 0)
                every = r.choice([1, 10, 100, 1000, 5000])
            else:
                s, ev, ts = last
                x = r.random()
                hi = max(s) if ts is None else max(max(s), int(ts) if ts == ts and abs(ts) < 1e18 else max(s))
                if x < 0.1:
                    start, every = 0, r.choice([1, 10, 100])            # reset_timestep: outside restart shapes
                elif x < 0.55 or ev <= 0:
                    start, every = s[-1], ev if ev > 0 else 10          # next run command / restart on the last printed step
                elif x < 0.8:
                    start, every = r.choice(s), ev                      # restart from an earlier restart file
                    need = (max(s) - start) // every + 1
                    if r.random() < 0.75:
                        n = max(n, need + r.choice([0, 0, 1, 5]))
                    else:
                        n = max(1, min(n, need - 1))                    # ... that itself stopped before reaching the old end
                        ctx.probe('restart_ends_below_previous')
                else:
                    start, every = hi + r.choice([1, ev, 7 * ev]), r.choice([ev, 10, 100])   # beyond the log
            b = {'echo': [r.choice(fl.ECHO_LINES) for _ in range(r.choice([0, 1, 2, 4, 9]))], 'kind': r.choice(['run', 'run', 'min']),
                 'mem': r.randint(0, 1), 'cols': self._gen_cols(ctx, st), 'rowstyle': r.choice(fl.ROW_STYLES), 'start': start,
                 'every': every, 'n': n, 'vseed': r.getrandbits(31), 'perf': r.random() < 0.7,
                 'setup': r.random() < 0.6, 'neigh': r.random() < 0.3, 'perfline': r.random() < 0.5}
            if r.random() < 0.25:
                b['warn'] = r.randint(0, 3)
            if r.random() < 0.1:
                b['nonfinite'] = True
            blocks.append(b)
            if n > 0:
                last = ([start + k * every for k in range(n)], every, None)
        spec = {'banner': cfg['banner'] if r.random() < 0.9 else r.choice(fl.BANNERS), 'omp': r.random() < 0.4,
                'tseed': r.getrandbits(31), 'blocks': blocks, 'echo_tail': [r.choice(fl.ECHO_LINES) for _ in range(r.choice([0, 0, 2]))],
                'crlf': r.random() < 0.1, 'tail': r.random() < 0.8, 'perfstyle': r.choice(['new', 'new', 'old']), 'echo_screen': r.random() < 0.2, 'screen_junk': r.random() < 0.1}
        fault = None
        if allow_fault and not cfg['fault_free']:
            x = r.random()
            if x < 0.4:
                place = r.choice(fl.KILL_PLACES) if r.random() < 0.75 else 'uniform'
                fault = {'kind': 'kill', 'place': place, 'u1': r.random(), 'u2': r.random(),
                         'mode': r.choice(['block', 'line', 'raw', 'raw']), 'bufsize': cfg['bufsize']}
            elif x < 0.5:
                spec['error'] = r.randint(0, 3)
                fault = {'kind': 'error'}
        return spec, fault

    def _gen_source(self, ctx, st):
        r = ctx.rng
        names = sorted(st['files'])
        cfgname = st['cfg']['logfile']
        if r.random() < 0.08 and '/' not in cfgname:
            # a path handed over BEFORE the file exists (a monitor started early): a str that is not a file is log text,
            # here the text of the file name, i.e. an empty log - and the same path must be read as a file once it exists
            stem, ext = _split_name(cfgname)
            future = cfgname if cfgname not in st['files'] else '%s-%d%s' % (stem, 1 + sum(1 for f in names if f.startswith(stem + '-')), ext)
            return {'from': 'future', 'name': future, 'kind': 'path', 'chunks': [1], 'bufsize': 1}
        if not st['cfg']['fault_free'] and r.random() < 0.07:
            # a source that cannot be opened at all: a pathlib.Path of a file that is not there, or a text-mode stream
            return {'from': 'missing', 'kind': r.choice(['pathobj', 'textio']), 'chunks': [1], 'bufsize': 1}
        if names and r.random() < 0.75:
            src = {'from': 'file', 'name': r.choice(names)}
        else:
            spec, fault = self._gen_spec(ctx, st, None, True)
            if fault is not None and fault['kind'] == 'error':
                fault = None
            src = {'from': 'synth', 'spec': spec, 'fault': fault}
        src['kind'] = r.choice(SOURCE_KINDS)
        src['chunks'] = [r.choice([1, 2, 3, 7, 16, 64, 100, 1000, 4096]) for _ in range(r.randint(1, 4))]
        src['bufsize'] = r.choice([1, 8, 64, 512, 8192])
        if src['kind'] in ('chunked', 'buffered') and not st['cfg']['fault_free'] and r.random() < 0.3:
            # a bad sector under the reader: delivering one particular byte raises EIO (every time, or only the first time)
            src['ioerr'] = {'u': r.random(), 'once': r.random() < 0.3}
        return src

    def gen(self, ctx, st):
        r = ctx.rng
        cfg = st['cfg']
        if st.get('pending'):
            return st['pending'].pop(0)
        kinds = [('invoke', cfg['w_invoke'] * (2.0 if st['invocations'] < 2 else 1.0)),
                 ('read', cfg['w_read'] if st['logs'] else 0.0),
                 ('new', 0.4),
                 ('flatten', cfg['w_flat'] if st['logs'] else 0.0)]
        kind = ctx.wchoice(kinds)
        if kind == 'invoke':
            name = cfg['logfile']
            restart = r.random() < (0.85 if st['invocations'] else 0.5)
            if st['subdir']:
                restart = True              # one restart chain (see init)
            if r.random() < 0.06 and not restart:
                name = None
            screen = cfg['screen'] if r.random() < 0.8 else (not cfg['screen'])
            if name is None:
                screen = True
            prev = None
            if restart and name in st['files']:
                prev = st['files'][name].decode('utf-8', 'replace')
            spec, fault = self._gen_spec(ctx, st, prev, True)
            return {'op': 'invoke', 'logfile': name, 'restart': restart, 'screen': screen, 'spec': spec, 'fault': fault,
                    'script_file': cfg['script_file'], 'suffix': r.choice([None, None, 'omp'])}
        if kind == 'new':
            return {'op': 'new', 'src': self._gen_source(ctx, st) if r.random() < 0.6 else None}
        if kind == 'read':
            return {'op': 'read', 'log': r.randrange(len(st['logs'])), 'src': self._gen_source(ctx, st),
                    'append': r.random() < 0.7, 'diff': r.random() < 0.4}
        nl = len(st['logs'])
        # prefer logs that hold several blocks
        cand = [i for i in range(nl) if len(st['models'][i].present) >= 2] or list(range(nl))
        k = r.choice(cand)
        n = len(st['models'][k].present)
        first = last = None
        if r.random() < 0.35 and n:
            first = r.randint(-n, n)
        if r.random() < 0.35 and n:
            last = r.randint(-n, n)
        fop = {'op': 'flatten', 'log': k, 'style': r.choice(['first', 'last', 'last', 'all']), 'first': first, 'last': last}
        if r.random() < 0.25 and 1 <= n <= 4:
            # the same question asked again after the object's content was replaced by another log with as many runs
            src = self._gen_source(ctx, st)
            if src['from'] == 'synth':
                spec, _ = self._gen_spec(ctx, st, None, False)
                for _ in range(6):
                    if len(spec['blocks']) == n and all(b['n'] > 0 for b in spec['blocks']):
                        break
                    spec, _ = self._gen_spec(ctx, st, None, False)
                src = dict(src, spec=spec, fault=None)
                src.pop('ioerr', None)
            st['pending'] = [{'op': 'read', 'log': k, 'src': src, 'append': False, 'diff': False}, dict(fop)]
        return fop

    # ------------------------------------------------------------------
    # application
    def apply(self, ctx, st, op):
        kind = op['op']
        ctx.op(kind)
        getattr(self, '_op_' + kind)(ctx, st, op)

    # -- sources --------------------------------------------------------
    def _plan(self, spec, fault):
        """Returns (surviving log bytes, screen text, rc, kill class, rendered)."""
        rd = fl.render(spec)
        data = rd['log'].encode('utf-8')
        if fault is None:
            return data, rd['screen'], 0, None, rd
        if fault['kind'] == 'error':
            return data, rd['screen'], 1, 'error', rd
        off = fl.place_kill(rd['marks'], fault['place'], fault['u1'], fault['u2'], data)
        surv = fl.survive(data, off, fault['mode'], fault['bufsize'])
        if surv in self._fullof and self._fullof[surv] != data:
            self._fullof[surv] = None
        else:
            self._fullof[surv] = data
        frac = len(surv) / max(1, len(data))
        scr = rd['screen'][:int(frac * len(rd['screen']))]
        return surv, scr, -9, fault['place'], rd

    def _source_text(self, ctx, st, src):
        """Bytes the reader will be given, or None when the source no longer exists (minimised history)."""
        if src['from'] == 'file':
            data = st['files'].get(src['name'])
            return data
        if src['from'] == 'future':
            if src['name'] in st['files']:
                return st['files'][src['name']]      # it exists by now (replayed or minimised history): an ordinary file
            ctx.probe('path_of_a_file_that_does_not_exist_yet')
            return src['name'].encode('utf-8')       # not a file: the string itself is the content
        surv, _, _, place, rd = self._plan(src['spec'], src.get('fault'))
        if src.get('fault'):
            self._count_kill(ctx, src['fault'], surv, rd)
        return surv

    def _count_kill(self, ctx, fault, surv, rd):
        ctx.fault('kill/' + fault['place'])
        ctx.fault('disk/' + fault['mode'])
        if len(surv) == 0:
            ctx.probe('kill_lost_everything')
        text = surv.decode('utf-8', 'replace')
        if _dec(surv).encode('utf-8') != surv:
            ctx.probe('kill_inside_a_multibyte_character')
        if text and not text.endswith('\n'):
            # classify where the tear is
            off = len(surv)
            tag = None
            for (a, t), (b, _) in zip(rd['marks'], rd['marks'][1:]):
                if a <= off < b:
                    tag = t
                    inside = off - a
                    break
            if tag == 'row':
                ctx.probe('kill_mid_row')
                if inside <= len(text.split('\n')[-1]) and len(text.split('\n')[-1].split()) <= 1:
                    ctx.probe('kill_in_step_token')
            elif tag == 'header':
                ctx.probe('kill_in_header')
            elif tag == 'loop':
                ctx.probe('kill_in_loop_line')
            elif tag == 'banner':
                ctx.probe('kill_in_banner')
            elif tag == 'perf':
                ctx.probe('kill_in_perf_table')
        else:
            off = len(surv)
            for (a, t), (b, _) in zip(rd['marks'], rd['marks'][1:]):
                if b == off:
                    if t == 'mem':
                        ctx.probe('kill_after_mem_banner')
                    elif t == 'row':
                        ctx.probe('kill_row_boundary')
                    elif t == 'perf':
                        ctx.probe('kill_in_perf_table')
                    break

    def _make_source(self, ctx, st, src, data):
        kind = src['kind']
        st['nsynth'] += 1
        text = _dec(data)
        if src['from'] == 'future':
            return src['name'], (lambda: None), 'path'
        whole = text.encode('utf-8') == data
        if kind == 'text' and not whole:
            kind = 'bytes'          # a str cannot carry half a character: this caller holds bytes
        if kind in ('pathobj', 'fileobj', 'rawfile'):
            if src['from'] == 'file':
                fn = src['name']
            else:
                fn = 'ext-%d.log' % st['nsynth']
                with open(fn, 'wb') as f:
                    f.write(data)
            if kind == 'pathobj':
                import pathlib
                obj, closer = pathlib.Path(fn), (lambda: None)
                ctx.probe('path_source')
            else:
                obj = open(fn, 'rb') if kind == 'fileobj' else open(fn, 'rb', buffering=0)
                closer = obj.close
                ctx.probe('real_file_object_source')
            return obj, closer, kind
        if kind == 'bytes':
            ctx.probe('text_source')
            return data, (lambda: None), kind
        if kind == 'path' and src['from'] == 'file':
            obj, closer, stream = src['name'], (lambda: None), None
        elif kind == 'text' and (('\n' not in text and len(text) < 200) or text == ''):
            # a short one-line string could be taken for a path; hand it over as a stream instead
            obj, closer, stream = streams.make_source('bytesio', text, st['scratch'], 'x')
            kind = 'bytesio'
        else:
            fail_at = None
            if src.get('ioerr') and kind in ('chunked', 'buffered') and len(data) > 0:
                fail_at = min(len(data) - 1, int(src['ioerr']['u'] * len(data)))
            obj, closer, stream = streams.make_source(kind, text if whole else data, st['scratch'], 'ext-%d.log' % st['nsynth'],
                                                      chunks=src['chunks'], bufsize=src['bufsize'], fail_at=fail_at,
                                                      fail_once=bool(src.get('ioerr') and src['ioerr'].get('once')))
            st['last_stream'] = stream
        if kind == 'path':
            ctx.probe('path_source')
            if src['from'] != 'file':
                obj = os.path.basename(obj)
        elif kind == 'text':
            ctx.probe('text_source')
        elif kind == 'chunked':
            ctx.probe('short_read_source')
            ctx.fault('short_read_stream')
        elif kind == 'buffered':
            ctx.probe('buffered_source')
            ctx.fault('short_read_stream')
        return obj, closer, kind

    # -- model bookkeeping ---------------------------------------------
    def _model_add(self, ctx, model, text, tag):
        try:
            p = lm.parse(text, src=tag)
        except ValueError as e:
            raise HarnessError('generator produced a log the model cannot read: %s' % e)
        if p['blocks'] and p['blocks'][-1].torn_row is not None:
            # what was the process writing when it died?  (known to the simulator, not to the reader)
            b = p['blocks'][-1]
            full = getattr(self, '_fullof', {}).get(text.encode('utf-8'))
            if full:
                ftext = _dec(full)
                off = text.rfind('\n') + 1
                end = ftext.find('\n', off)
                line = ftext[off:end if end >= 0 else len(ftext)]
                toks = line.split()
                b.torn_full = toks if (lm.END_TRIGGER not in line and len(toks) == len(b.cols)) else None
        model.blocks.extend(p['blocks'])
        model.versions.append(p['version'])
        if p['banner_torn']:
            # an in-flight banner line is not a banner: it contributes no version (and must not leave a made-up one behind that
            # would keep the complete banner of the next log from being read)
            ctx.probe('banner_in_flight')
        model.reads += 1
        for b in p['blocks']:
            if not b.rows and b.torn_row is None:
                ctx.probe('block_without_rows')
            if b.perf == 'new':
                ctx.probe('perf_new')
            elif b.perf == 'old':
                ctx.probe('perf_old')
            elif b.complete:
                ctx.probe('perf_none')
            if b.cols and 'Step' in b.cols and b.cols[0] != 'Step':
                ctx.probe('step_not_first_column')
        if len({v for v in model.versions if v is not None}) >= 2:
            ctx.probe('two_versions_in_one_log_object')
        if text and not text.endswith('\n'):
            ctx.probe('read_truncated_log')
        if '\r\n' in text:
            ctx.probe('crlf_log')
        return p

    # -- checks ---------------------------------------------------------
    def _check_block(self, ctx, sim, b, where):
        """Returns None when sim matches block b, else a Violation (not raised: alignment search)."""
        th = sim.thermo
        if th is None:
            return Violation('C19.I1', {'what': 'simulation without thermo table', 'where': where}, klass='thermo-none')
        cols = [str(c) for c in th.columns]
        if b.header_torn:
            return None
        if cols != b.cols:
            return Violation('C19.I2', {'what': 'column names differ from the printed header', 'printed': b.cols, 'observed': cols,
                                        'where': where}, klass='columns')
        n = len(b.rows)
        extra = len(th) - n
        if extra < 0 or extra > (1 if b.torn_row is not None else 0):
            return Violation('C19.I3', {'what': 'row count', 'printed_complete_rows': n, 'in_flight_row': b.torn_row is not None,
                                        'observed_rows': len(th), 'where': where},
                             klass='rowcount/' + ('short' if extra < 0 else 'long') + ('/torn' if b.torn_row is not None else ''))
        if extra == 1 and b.torn_full is not False:
            # the line LAMMPS was writing when it died was taken for a row: nothing demands that, and whatever is shown
            # for it must not be wrong data presented as right - each cell is the value that was being printed, or missing
            full = b.torn_full
            for j, c in enumerate(b.cols):
                cell = th.iloc[n, j]
                try:
                    got = lm.cell_value(cell)
                except (ValueError, TypeError):
                    got = None
                if got is not None and got != got:
                    continue                    # missing
                ok_cell = full is not None and got is not None and lm.ulps(got, lm.tok_value(full[j])) <= ULP
                if not ok_cell:
                    return Violation('C19.I3', {'what': 'the line that was being written when LAMMPS died is presented as a thermo row with a '
                                                        'value that was never printed', 'column': c, 'observed': repr(cell),
                                                'fragment': b.torn_row, 'line_being_written': full, 'where': where}, klass='cell/inflight')
        for j, c in enumerate(b.cols):
            col = th.iloc[:, j].tolist()
            if len(th) and th.iloc[:, j].dtype == object:
                ctx.probe('object_dtype_column')
            for i in range(n):
                tok = b.rows[i][j]
                try:
                    got = lm.cell_value(col[i])
                except (ValueError, TypeError):
                    return Violation('C19.I3', {'what': 'cell is not a number', 'column': c, 'row': i, 'printed': tok,
                                                'observed': repr(col[i]), 'where': where}, klass='cell/nan')
                want = lm.tok_value(tok)
                if lm.ulps(got, want) > ULP:
                    return Violation('C19.I3', {'what': 'cell value differs from the printed token', 'column': c, 'row': i,
                                                'printed': tok, 'observed': got, 'where': where}, klass='cell/value')
        return None

    def _check_log(self, ctx, log, model, where):
        sims = list(log.simulations)
        exp = model.blocks
        opt = [i for i, b in enumerate(exp) if b.header_torn]
        missing = len(exp) - len(sims)
        if missing < 0 or missing > len(opt):
            raise Violation('C19.I1', {'what': 'number of simulation records', 'expected': len(exp), 'optional': len(opt),
                                       'observed': len(sims), 'where': where,
                                       'blocks': [b.describe() for b in exp][:8]},
                            klass='count/' + ('more' if missing < 0 else 'fewer'))
        # choose which optional blocks are absent (almost always none or one)
        import itertools
        firstv = None
        for drop in itertools.combinations(opt, missing):
            present = [b for i, b in enumerate(exp) if i not in drop]
            bad = None
            for k, (sim, b) in enumerate(zip(sims, present)):
                bad = self._check_block(ctx, sim, b, '%s sim %d' % (where, k))
                if bad is not None:
                    break
            if bad is None:
                model.present = present
                model.extra = {id(b): (len(sim.thermo) > len(b.rows)) for sim, b in zip(sims, present)}
                break
            firstv = firstv or bad
        else:
            raise firstv
        # version and date
        if not model.torn_banner:
            seen = [v for v in model.versions if v is not None]
            obs = log.lammps_version
            if not seen:
                if obs is not None:
                    raise Violation('C19.I4', {'what': 'version reported although no banner was read', 'observed': obs,
                                               'where': where}, klass='version/phantom')
            else:
                if obs not in seen:
                    raise Violation('C19.I4', {'what': 'version string', 'banners_read': seen, 'observed': obs, 'where': where},
                                    klass='version/value')
                d = lm._date_of(obs)
                if log.lammps_date != d:
                    raise Violation('C19.I4', {'what': 'version date', 'version': obs, 'expected': str(d),
                                               'observed': str(log.lammps_date), 'where': where}, klass='version/date')

    def _check_log_failed(self, ctx, log, model, where):
        # after a failed read the version may or may not have been taken from the new banner
        seen = [v for v in model.versions if v is not None]
        obs = log.lammps_version
        saved = model.torn_banner
        if obs is None or obs in seen:
            model.torn_banner = True          # the version clause was just evaluated here; skip it in _check_log
        try:
            self._check_log(ctx, log, model, where)
        finally:
            model.torn_banner = saved

    def _check_conserved(self, ctx, st, where):
        have = []
        for root, dirs, fnames in os.walk('.'):
            for fn in fnames:
                if fn.startswith('in.') or fn.startswith('ext-'):
                    continue
                with open(os.path.join(root, fn), 'rb') as f:
                    have.append(f.read())
        want = sorted(st['series'])
        if sorted(have) != want:
            raise Violation('C19.I7', {'what': 'the surviving logs of the earlier invocations are no longer all there (each exactly once)',
                                       'expected_files': len(want), 'observed_files': len(have),
                                       'expected_sizes': sorted(len(x) for x in want), 'observed_sizes': sorted(len(x) for x in have),
                                       'where': where}, klass='dir/conservation')

    def _check_dir(self, ctx, st, where):
        have = sorted(f for f in os.listdir('.') if not f.startswith('in.') and not f.startswith('ext-'))
        want = sorted(st['files'])
        if have != want:
            raise Violation('C19.I7', {'what': 'files in the run directory', 'expected': want, 'observed': have, 'where': where},
                            klass='dir/names')
        for name in want:
            with open(name, 'rb') as f:
                data = f.read()
            if data != st['files'][name]:
                raise Violation('C19.I7', {'what': 'log file content changed', 'file': name, 'expected_bytes': len(st['files'][name]),
                                           'observed_bytes': len(data), 'where': where}, klass='dir/content')

    # -- operations -----------------------------------------------------
    def _op_invoke(self, ctx, st, op):
        name = op['logfile']
        if name is None and (op['restart'] or not op['screen']):
            return
        surv, screen, rc, place, rd = self._plan(op['spec'], op['fault'])
        if op['fault'] is not None:
            if op['fault']['kind'] == 'kill':
                self._count_kill(ctx, op['fault'], surv, rd)
            else:
                ctx.fault('error_exit')
                ctx.probe('error_exit')
        ctx.sim_steps += rd['steps']
        for b in op['spec']['blocks']:
            if any(e != '' and e.strip() == '' for e in b.get('echo') or []):
                ctx.probe('whitespace_only_echo_line')
            if b.get('nonfinite'):
                ctx.probe('nonfinite_tokens')
            if b['start'] + b['n'] * b['every'] > 2 ** 31:
                ctx.probe('int_beyond_32bit')
        # model of what run() does to the directory
        files = st['files']
        lognum = 0
        stem = ext = None
        subdir = name is not None and '/' in name
        if subdir and not op['restart']:
            return
        if subdir:
            os.makedirs(os.path.dirname(name), exist_ok=True)
            series_prev = list(st['series'])
            st['series'].append(surv)
            if series_prev:
                ctx.probe('restart_rotation')
                ctx.probe('logfile_in_subdirectory_rotated')
        elif op['restart'] and name in files:
            stem, ext = _split_name(name)
            pat = re.compile(re.escape(stem) + r'-(\d+)' + re.escape(ext) + r'$')
            ids = [int(m.group(1)) for m in (pat.match(f) for f in files) if m]
            lognum = max(ids + [0]) + 1
            files['%s-%d%s' % (stem, lognum, ext)] = files.pop(name)
            ctx.probe('restart_rotation')
            if lognum >= 2:
                ctx.probe('rotation_depth_ge_2')
            if lognum >= 3:
                ctx.probe('rotation_depth_ge_3')
        if name is not None and not subdir:
            files[name] = surv
        # the call
        kw = {}
        script = 'units metal\natom_style atomic\nrun 100\n'
        if op.get('script_file'):
            with open('in.lammps', 'w') as f:
                f.write(script)
            kw['script_name'] = 'in.lammps'
            if op['restart']:
                with open('in.restart', 'w') as f:
                    f.write('read_restart a.restart\nrun 100\n')
                kw['restart_script_name'] = 'in.restart'
        else:
            kw['script'] = script
            if op['restart']:
                kw['restart_script'] = 'read_restart a.restart\nrun 100\n'
        if name != 'log.lammps':
            kw['logfile'] = name
        if not op['screen']:
            kw['screen'] = False
        if st['cfg']['mpi']:
            kw['mpi_command'] = st['cfg']['mpi']
        if op.get('suffix'):
            kw['suffix'] = op['suffix']
        st['stub'].plan = {'log_bytes': surv, 'screen': screen, 'rc': rc}
        ok, out = ctx.sut(lmp.run, st['cfg']['lammps'], **kw)
        st['stub'].plan = None
        st['invocations'] += 1
        ctx.changes += 1
        ctx.ev('op', 'invoke', {'logfile': name, 'restart': op['restart'], 'screen': op['screen'], 'rc': rc,
                                'surviving': len(surv), 'lognum': lognum},
               'log' if ok else type(out).__name__)
        if subdir:
            self._check_conserved(ctx, st, 'after invoke')
        else:
            self._check_dir(ctx, st, 'after invoke')
        kclass = place or 'clean'
        if rc != 0:
            st['crashed'] = True
            ctx.sig('invoke', len(files), kclass, op['restart'], op['screen'], len(op['spec']['blocks']))
            return
        if not ok:
            raise Violation('C19.I9', {'what': 'run() failed although LAMMPS finished cleanly; it re-reads the logs of the '
                                               'earlier invocations', 'exception': type(out).__name__, 'message': str(out)[:300],
                                       'old_logs': lognum}, site=sut_site(out), klass='run/raise/' + type(out).__name__)
        model = LogModel()
        if subdir:
            lognum = len(series_prev)
            for i, h in enumerate(series_prev):
                self._model_add(ctx, model, _dec(h), 'invocation-%d' % i)
        for i in range(1, (0 if subdir else lognum) + 1):
            fn = '%s-%d%s' % (stem, i, ext)
            self._model_add(ctx, model, _dec(files[fn]), fn)
        if op['screen']:
            self._model_add(ctx, model, screen, 'screen')
            ctx.probe('screen_output_read')
        else:
            self._model_add(ctx, model, _dec(surv), name)
            ctx.probe('logfile_read_by_run')
        self._check_log(ctx, out, model, 'run() result')
        if lognum >= 1:
            ctx.probe('clean_run_covers_whole_history')
            if st['crashed']:
                ctx.probe('recovery_after_crash_in_one_call')
        self._pool_add(st, out, model)
        ctx.sig('invoke', len(files), 'clean', op['restart'], op['screen'], len(op['spec']['blocks']), lognum,
                tuple(len(lm.parse(_dec(files[f]))['blocks']) for f in sorted(files)))

    def _pool_add(self, st, log, model):
        if len(st['logs']) >= MAX_LOGS:
            st['logs'].pop(0)
            st['models'].pop(0)
        st['logs'].append(log)
        st['models'].append(model)

    def _read_refused(self, ctx, st, log, model, src, append):
        """The source cannot be opened.  The statement says nothing about a refused read; what the Log holds afterwards must
        still be one thing or the other: everything it held (nothing happened), or - for append=False - nothing at all (the
        replacement began).  Runs without their version, or a version without its runs, is neither."""
        import copy as _copy
        import io as _io
        import pathlib
        st['nsynth'] += 1
        obj = pathlib.Path('no-such-log-%d.lammps' % st['nsynth']) if src['kind'] == 'pathobj' else _io.StringIO('LAMMPS (1 Jan 2020)\n')
        ok, out = ctx.sut(log.read, obj) if append else ctx.sut(log.read, obj, append=False)
        ctx.fault('unopenable_source')
        if ok and src['kind'] == 'pathobj':
            # "given as text, file path or stream": a Path object is a file path and nothing else; where no file is there is no log
            raise Violation('C19.F', {'what': 'a pathlib.Path that names no file was read as if it were a log', 'append': append,
                                      'nsims': len(log.simulations), 'version': log.lammps_version}, klass='refused-read/missing-path-accepted')
        if ok:
            # taken after all: for the text stream that is a log with a banner and no run
            if not append:
                model.reset()
            if src['kind'] != 'pathobj':
                self._model_add(ctx, model, 'LAMMPS (1 Jan 2020)\n', 'textio')
            self._check_log(ctx, log, model, 'after read(%s) of a source expected to be refused' % src['kind'])
            return log
        ctx.probe('refused_read_raised')
        try:
            self._check_log(ctx, log, model, 'after a refused read')
        except Violation as v1:
            if append:
                raise Violation('C19.F', dict(v1.detail, what='a refused read(append=True) changed what the Log holds', first_mismatch=v1.detail.get('what'),
                                              exception=type(out).__name__), klass='refused-read/' + v1.klass)
            empty = LogModel()
            try:
                self._check_log(ctx, log, empty, 'after a refused read(append=False)')
            except Violation:
                raise Violation('C19.F', dict(v1.detail, what='after a refused read(append=False) the Log holds neither everything it held nor nothing',
                                              first_mismatch=v1.detail.get('what'), exception=type(out).__name__,
                                              nsims=len(log.simulations), version=log.lammps_version), klass='refused-read/' + v1.klass)
            model.reset()
        ctx.ev('op', 'read-refused', {'kind': src['kind'], 'append': append}, {'nsims': len(log.simulations), 'exc': type(out).__name__})
        ctx.changes += 1
        ctx.sig('read-refused', src['kind'], append, len(model.blocks))
        return log

    def _read_into(self, ctx, st, log, model, src, append, tag, ctor=False):
        if src['from'] == 'missing':
            if ctor:
                return False
            return self._read_refused(ctx, st, log, model, src, append)
        data = self._source_text(ctx, st, src)
        if data is None:
            return False
        st['last_data'] = data
        st['last_stream'] = None
        obj, closer, kind = self._make_source(ctx, st, src, data)
        text = _dec(data)
        if text.encode('utf-8') != data:
            ctx.probe('kill_inside_a_multibyte_character')
        try:
            if ctor:
                ok, out = ctx.sut(lmp.Log, obj)
            elif append:
                ok, out = ctx.sut(log.read, obj)
            else:
                ok, out = ctx.sut(log.read, obj, append=False)
        finally:
            try:
                closer()
            except Exception:       # noqa: BLE001
                pass
        trunc = bool(text) and not text.endswith('\n')
        raw = st.get('last_stream')
        io_fired = raw is not None and getattr(raw, 'io_errors', 0) > 0
        if io_fired:
            ctx.fault('io_error_under_reader')
            ctx.probe('io_error_read_' + ('raised' if not ok else 'completed'))
        if io_fired and not ok:
            # a failed read may leave nothing or a correct prefix of the new runs behind; it never disturbs the
            # records that were there, and never leaves wrong data
            if ctor:
                return False
            if not append:
                model.reset()
            try:
                newp = lm.parse(text, src=tag)
            except ValueError as e:
                raise HarnessError('generator produced a log the model cannot read: %s' % e)
            before = list(model.blocks)
            lastv = None
            for k in range(len(newp['blocks']), -1, -1):
                model.blocks = before + newp['blocks'][:k]
                vers = list(model.versions)
                model.versions = vers + [newp['version']] + ([None] if not vers else [])
                tb = model.torn_banner
                model.torn_banner = tb or newp['banner_torn']
                try:
                    self._check_log_failed(ctx, log, model, 'after a read that failed with EIO')
                    lastv = None
                    # the banner of the failed read counts as read only if the Log actually took it
                    took = log.lammps_version is not None and log.lammps_version == newp['version'] and log.lammps_version not in vers
                    model.versions = vers + ([newp['version']] if took else [])
                    break
                except Violation as v:
                    lastv = lastv or v
                    model.versions = vers
                    model.torn_banner = tb
            if lastv is not None:
                raise Violation('C19.F', dict(lastv.detail, what='after a read that failed with an I/O error the Log holds neither its '
                                              'old records nor old records plus a correct prefix of the new ones',
                                              first_mismatch=lastv.detail.get('what')), klass='ioerr/' + lastv.klass)
            model.reads += 1
            ctx.ev('op', 'read-failed', {'kind': kind, 'append': append, 'bytes': len(data)}, {'nsims': len(log.simulations)})
            ctx.changes += 1
            ctx.sig('read-failed', kind, append, len(model.blocks))
            return log
        if not ok:
            raise Violation('C19.R', {'what': 'reading a log raised', 'source_kind': kind, 'append': append, 'truncated': trunc,
                                      'exception': type(out).__name__, 'message': str(out)[:300], 'bytes': len(data),
                                      'tail': text[-160:]},
                            site=sut_site(out), klass='read/%s/%s' % ('truncated' if trunc else 'whole', type(out).__name__))
        if ctor:
            log = out
        if not append:
            if model.reads:
                ctx.probe('read_append_false_nonempty')
            model.reset()
        elif model.reads:
            ctx.probe('read_append_true_nonempty')
        if any(b.src == tag for b in model.blocks):
            ctx.probe('read_same_file_twice')
        self._model_add(ctx, model, text, tag)
        ctx.ev('op', 'read', {'kind': kind, 'append': append, 'bytes': len(data), 'from': src['from'], 'name': src.get('name')},
               {'nsims': len(log.simulations), 'version': log.lammps_version})
        self._check_log(ctx, log, model, 'after read(%s, append=%s)' % (kind, append))
        ctx.changes += 1
        st['kinds_used'].add(kind)
        ctx.sig('read', kind, append, len(model.blocks), trunc, tuple((len(b.rows), b.torn_row is not None, b.complete)
                                                                     for b in model.blocks[-3:]))
        return log

    def _op_new(self, ctx, st, op):
        model = LogModel()
        if op['src'] is None:
            log = ctx.must('C19.R', lmp.Log, klass='ctor/empty')
            self._check_log(ctx, log, model, 'Log()')
        else:
            tag = op['src'].get('name') or 'synth-%d' % st['nsynth']
            log = self._read_into(ctx, st, None, model, op['src'], True, tag, ctor=True)
            if log is False:
                return
        self._pool_add(st, log, model)

    def _op_read(self, ctx, st, op):
        if op['log'] >= len(st['logs']):
            return
        log, model = st['logs'][op['log']], st['models'][op['log']]
        tag = op['src'].get('name') or 'synth-%d' % st['nsynth']
        if self._read_into(ctx, st, log, model, op['src'], op['append'], tag) is False:
            return
        if op.get('diff') and op['src'].get('from') != 'missing' and not (st.get('last_stream') is not None and getattr(st['last_stream'], 'io_errors', 0) > 0):
            # the same bytes through another source kind must give bit-identical tables
            data = st['last_data']
            ref = ctx.must('C19.R', lmp.Log, io.BytesIO(data), klass='read/bytesio-ref')
            n = len(ref.simulations)
            mine = log.simulations[len(log.simulations) - n:] if n else []
            for k, (a, b) in enumerate(zip(mine, ref.simulations)):
                if not a.thermo.equals(b.thermo):
                    raise Violation('C19.I8', {'what': 'the same bytes read through two source kinds give different tables',
                                               'kind': op['src']['kind'], 'sim': k}, klass='diff/' + op['src']['kind'])
            ctx.probe('differential_source_kinds')

    def _op_flatten(self, ctx, st, op):
        if op['log'] >= len(st['logs']):
            return
        log, model = st['logs'][op['log']], st['models'][op['log']]
        style, first, last = op['style'], op['first'], op['last']
        sel = model.present[first:last]
        if first is not None or last is not None:
            ctx.probe('flatten_indices')
        rows_sel = [b for b in sel if b.rows or model.extra.get(id(b))]
        ok, out = ctx.sut(log.flatten, style, first, last)
        ctx.ev('op', 'flatten', {'style': style, 'first': first, 'last': last, 'nsel': len(sel)},
               'ok' if ok else type(out).__name__)
        if not sel or not rows_sel or any(b.cols is None or 'Step' not in b.cols for b in rows_sel):
            return          # nothing to merge, or no Step column: the statement does not say
        if not ok:
            raise Violation('C19.I6', {'what': 'flatten raised', 'style': style, 'first': first, 'last': last,
                                       'exception': type(out).__name__, 'message': str(out)[:300],
                                       'blocks': [b.describe() for b in rows_sel][:6]},
                            site=sut_site(out), klass='flatten/%s/raise/%s' % (style, type(out).__name__))
        th = out.thermo
        cols = [str(c) for c in th.columns]
        data = {c: th[c].tolist() for c in cols}
        nobs = len(th)
        if any(model.extra.get(id(b)) for b in rows_sel):
            ctx.probe('flatten_with_inflight_row')
        if len({tuple(b.cols) for b in rows_sel}) > 1:
            ctx.probe('mixed_column_sets')

        def cmp_row(i, b, r, what):
            for j, c in enumerate(b.cols):
                if c not in data:
                    raise Violation('C19.I6', {'what': 'column missing from the merged table', 'column': c, 'style': style},
                                    klass='flatten/%s/column' % style)
                try:
                    got = lm.cell_value(data[c][i])
                except (ValueError, TypeError):
                    got = float('nan')
                    if lm.tok_value(r[j]) == lm.tok_value(r[j]):
                        raise Violation('C19.I6', {'what': 'merged cell is not a number', 'column': c, 'observed': repr(data[c][i]),
                                                   'printed': r[j], 'style': style}, klass='flatten/%s/cell' % style)
                if lm.ulps(got, lm.tok_value(r[j])) > ULP:
                    raise Violation('C19.I6', {'what': what, 'style': style, 'column': c, 'merged_row': i, 'printed': r[j],
                                               'observed': got, 'first': first, 'last': last,
                                               'blocks': [(x.steps() or [None])[:1] + (x.steps() or [None])[-1:] + [len(x.rows)] for x in rows_sel]},
                                    klass='flatten/%s/cell' % style)

        if style == 'all':
            seq = []
            for b in rows_sel:
                for r in b.rows:
                    seq.append((b, r))
                if model.extra.get(id(b)):
                    seq.append((b, None))
            if len(seq) != nobs:
                raise Violation('C19.I6', {'what': 'flatten("all") must keep every row', 'expected_rows': len(seq), 'observed_rows': nobs,
                                           'first': first, 'last': last, 'blocks': [b.describe() for b in rows_sel][:6]},
                                klass='flatten/all/rowcount')
            for i, (b, r) in enumerate(seq):
                if r is not None:
                    cmp_row(i, b, r, 'row of the merged table differs from the printed row')
            ctx.probe('flatten_all_checked')
            ctx.sig('flatten', 'all', len(rows_sel), first is not None, last is not None)
            return

        if not lm.shortcut_is_exact(rows_sel, style):
            ctx.probe('flatten_unshaped_skipped')
            return
        exp = lm.flatten_expect(rows_sel, style)
        exempt = set()
        for b in rows_sel:
            if model.extra.get(id(b)):
                ts = b.torn_step()
                if ts is not None:
                    exempt.add(ts)
        if 'Step' not in data:
            raise Violation('C19.I6', {'what': 'no Step column in the merged table', 'style': style}, klass='flatten/%s/column' % style)
        where = {}
        for i, v in enumerate(data['Step']):
            try:
                s = lm.cell_value(v)
            except (ValueError, TypeError):
                continue
            if s != s:
                continue
            where.setdefault(s, []).append(i)
        overlap = len(exp) < sum(len(b.rows) for b in rows_sel)
        for s, (b, r) in exp.items():
            if float(s) in exempt:
                continue
            idx = where.get(float(s), [])
            if len(idx) != 1:
                raise Violation('C19.I6', {'what': 'every printed timestep must appear exactly once in the merged table',
                                           'style': style, 'step': s, 'occurrences': len(idx), 'first': first, 'last': last,
                                           'blocks': [{'first_step': x.steps()[0] if x.rows else None,
                                                       'last_step': x.steps()[-1] if x.rows else None, 'rows': len(x.rows),
                                                       'inflight': x.torn_row} for x in rows_sel][:6]},
                                klass='flatten/%s/%s' % (style, 'missing' if not idx else 'duplicate'))
            cmp_row(idx[0], b, r, 'timestep taken from the wrong run' if overlap else 'merged row differs from the printed row')
        for s in where:
            if s not in exempt and int(s) not in exp:
                raise Violation('C19.I6', {'what': 'merged table holds a timestep no selected run printed', 'step': s, 'style': style},
                                klass='flatten/%s/phantom' % style)
        ctx.probe('flatten_%s_checked' % style)
        if overlap:
            ctx.probe('flatten_overlap_checked')
        ctx.sig('flatten', style, len(rows_sel), overlap, bool(exempt), first is not None, last is not None)

    # ------------------------------------------------------------------
    def simplify(self, op):
        out = []
        if op['op'] == 'invoke':
            if op.get('fault'):
                out.append(dict(op, fault=None, spec={k: v for k, v in op['spec'].items() if k != 'error'}))
                if op['fault'].get('kind') == 'kill' and op['fault'].get('mode') != 'raw':
                    out.append(dict(op, fault=dict(op['fault'], mode='raw')))
            out += [dict(op, spec=s) for s in _simplify_spec(op['spec'])]
            if op.get('script_file'):
                out.append(dict(op, script_file=False))
            if op.get('suffix'):
                out.append(dict(op, suffix=None))
        elif op['op'] in ('read', 'new') and op.get('src'):
            src = op['src']
            if src['kind'] != 'bytesio':
                out.append(dict(op, src=dict(src, kind='bytesio')))
            if src['from'] == 'synth':
                if src.get('fault'):
                    out.append(dict(op, src=dict(src, fault=None)))
                    if src['fault'].get('mode') != 'raw':
                        out.append(dict(op, src=dict(src, fault=dict(src['fault'], mode='raw'))))
                out += [dict(op, src=dict(src, spec=s)) for s in _simplify_spec(src['spec'])]
            if op.get('diff'):
                out.append(dict(op, diff=False))
        elif op['op'] == 'flatten':
            if op['first'] is not None:
                out.append(dict(op, first=None))
            if op['last'] is not None:
                out.append(dict(op, last=None))
        return out


def _simplify_spec(spec):
    out = []
    bl = spec['blocks']
    for i in range(len(bl)):
        out.append(dict(spec, blocks=bl[:i] + bl[i + 1:]))
    for i, b in enumerate(bl):
        def rep(**kw):
            nb = dict(b)
            for k, v in kw.items():
                if v is None:
                    nb.pop(k, None)
                else:
                    nb[k] = v
            return dict(spec, blocks=bl[:i] + [nb] + bl[i + 1:])
        if b['n'] > 2:
            out.append(rep(n=b['n'] // 2))
            out.append(rep(n=b['n'] - 1))
        if len(b['cols']) > 2:
            keep = [c for c in b['cols'] if c == 'Step'] + [c for c in b['cols'] if c != 'Step'][:1]
            out.append(rep(cols=keep))
        if b.get('echo'):
            out.append(rep(echo=[]))
        if b.get('perf'):
            out.append(rep(perf=None))
        for k in ('warn', 'neigh', 'setup', 'perfline', 'nonfinite'):
            if b.get(k):
                out.append(rep(**{k: None}))
        if b.get('kind') == 'min':
            out.append(rep(kind='run'))
        if b.get('rowstyle') != 'old':
            out.append(rep(rowstyle='old'))
    for k in ('omp', 'echo_tail', 'screen_junk', 'echo_screen', 'crlf'):
        if spec.get(k):
            out.append({kk: vv for kk, vv in spec.items() if kk != k})
    return out
