"""C10 — data-model round trips across restarts.

A restart is: the working units change (new epoch) and every live object is
gone; only serialised text survives.  The simulator keeps every quantity as a
*physical* value (SI number + dimension) outside atomman, instantiates it in the
epoch in force when an object is built, and after any number of restarts expects
what is read back, divided by the current epoch's base values, to be the same
physical value.
"""

import io
import os
import shutil
import tempfile
import warnings

import numpy as np

from .. import geom, streams
from .. import unit_table as ut
from ..kernel import Engine, Violation
from .epochs_c09 import _RandomSeam, QNAMES, SUBSETS

import atomman as am
import atomman.unitconvert as uc
import numericalunits as nu
from DataModelDict import DataModelDict as DM

RT = 1e-12

UNITS_BY_KIND = {
    'length': (ut.L_, ['angstrom', 'nm', 'm', 'pm', 'cm']),
    'velocity': ((1, 0, -1, 0, 0), ['m/s', 'angstrom/ps', 'nm/fs', 'angstrom / fs', 'nm*angstrom/ps/nm', 'angstrom*ps^-1', 'm*s^-1']),
    'force': (ut.FORCE, ['eV/angstrom', 'nN', 'N', 'kcal/(mol*angstrom)', 'kcal/mol/angstrom', 'eV/nm^2*angstrom', 'kg*m/s/s', 'eV*angstrom^-1', 'kg*m*s^-2']),
    'energy': (ut.ENERGY, ['eV', 'J', 'meV', 'kcal/mol', 'kJ/mol', 'GPa*angstrom^3', 'eV/angstrom*nm']),
    'pressure': (ut.PRESSURE, ['GPa', 'bar', 'eV/angstrom^3', 'Pa', 'atm', 'eV/angstrom/angstrom^2', 'N/m/m', 'kg/m/s^2', 'eV*angstrom^-3', 'N*m^-2', 'kg*m^(-1)*s^-2']),
    'charge': (ut.Q_, ['e', 'C', 'mC']),
    'mass': (ut.M_, ['amu', 'g/mol', 'kg']),
    'time': (ut.T_, ['ps', 'fs', 's']),
    'none': (ut.ONE, [None]),
}
SI_SCALE = {'length': 1e-10, 'velocity': 1e2, 'force': 1e-9, 'energy': 1e-19, 'pressure': 1e9, 'charge': 1e-19, 'mass': 1e-26,
            'time': 1e-12, 'none': 1.0}
# per-atom property catalogue: name -> (kind, trailing shape, dtype class)
PROPS = {'vel': ('velocity', (3,), 'float'), 'force': ('force', (3,), 'float'), 'charge': ('charge', (), 'float'),
         'pe': ('energy', (), 'float'), 'stress': ('pressure', (3, 3), 'float'), 'tag': ('none', (), 'int'),
         'label': ('none', (), 'str'), 'ratio': ('none', (), 'float'), 'imgs': ('none', (3,), 'int'),
         'disp': ('length', (3,), 'float'), 'tags2': ('none', (2,), 'str')}
SYMS = ['Al', 'Cu', 'Fe', 'Ni', 'Mg', 'Ti', 'Al-alt', 'vac']
LABELS = ['core', 'bulk', 'surf', 'gb', 'xA', 'yB']
# labels that look like numbers: exact through the DataModelDict object and JSON; XML re-types them (dependency
# behaviour, outside the statement), so records carrying them are never sent through XML
NUMLABELS = ['12', '003', '1e3', '7', '-4', '0.50', '12', 'core']


def with_layout(a, layout):
    """The same values in another memory layout: what a caller gets from a transpose, a column-wise
    assembly or a slice of a larger array.  Values and shape are unchanged."""
    a = np.asarray(a)
    if layout == 'F' and a.ndim >= 2:
        return np.asfortranarray(a)
    if layout == 'strided' and a.ndim >= 1 and a.size:
        big = np.zeros(a.shape[:-1] + (2 * a.shape[-1],), dtype=a.dtype)
        big[..., ::2] = a
        return big[..., ::2]
    if layout == 'T' and a.ndim >= 2:
        return np.ascontiguousarray(a.T).T
    return a


def scale_of(base, dim):
    v = 1.0
    for b, p in zip(base, dim):
        if p:
            v *= b ** p
    return v


class Truth:
    """One artifact's ground truth: fields of physical values."""

    def __init__(self, kind):
        self.kind = kind
        self.fields = {}      # name -> dict(si=array|exact value, dim=tuple|None, tagged=bool, exact=bool, note=str)
        self.epoch = None     # epoch id at write time (for untagged fields)
        self.meta = {}


class ModelEngine(Engine):
    prop = 'C10'
    name = 'epochs_c10'
    max_ops = 30
    expected_probes = ['read_in_other_epoch', 'xml_read', 'json_read', 'dm_read', 'path_read', 'stream_read', 'short_read_stream',
                       'scaled_property', 'symbols_with_gap', 'masses_partly_none', 'units_given_without_names', 'format_name_not_lower_case', 'mass_zero', 'refused_reset_raised', 'refused_dump_raised', 'refused_record_raised', 'refused_model_raised', 'refused_masses_raised', 'one_atom_system', 'length1_array',
                       'rank3_value', 'rewrite_chain', 'elastic_normalised', 'unseeded_epoch', 'string_property', 'error_field',
                       'noncontiguous_input', 'box_read_into_used_object', 'io_error_read_raised', 'second_write_same_arguments', 'single_property_record', 'integer_typed_positions', 'nonfinite_values_round_tripped', 'same_object_dumped_again_after_edit', 'scribble_on_normalized_copy']
    rule = ('Each run is a history of up to 30 operations over a set of up to 10 serialised artifacts: build a value-with-units / '
            'Box / Atoms / System / ElasticConstants in the current epoch from simulator-held physical (SI, dimension) values and '
            'write it (arrays handed over C-ordered, Fortran-ordered, transposed or as strided views; uc.model, .model(), dump("system_model"), JSON or XML text with any indent, returned / to path / to stream); '
            'a Box is read back by constructor, into a fresh Box or into a Box that already served another cell, and must then '
            'behave as the cell it reports; restart (new working-unit epoch: seeded, unseeded through the owned random seam, named subset, SI, atomman default; all '
            'live objects dropped); read an artifact back (DataModelDict, JSON text, XML text, path, BytesIO, raw stream with short '
            'reads, buffered stream) and compare with the physical truth; rewrite (read then write again under the current epoch: '
            'chains of restarts). Systems: tilted or rotated cells, non-zero origin, 1-30 atoms, 1-4 types, symbols with gaps, '
            'masses absent / present / partly None, int / float / string properties with per-atom shapes (), (3,), (3,3), storage '
            'units per property including "scaled" and None. Units are stated as a dict, as name and unit lists, as a unit list alone, or left to the default; spellings include negative exponents; masses may be exactly zero; format names come in any letter case. Values: shapes (), (1,), (n,), (1,1), (m,n), (a,b,c). Quantities stored '
            'WITHOUT a unit are compared only when the epoch did not change (that is all the statement promises). Non-trivial run: '
            '>= 1 restart between a write and a read of the same artifact, or a short-read stream. distinct = distinct (object kind, '
            'encoding, source kind, epoch-changed, storage-unit pattern, shape class) signatures.')
    tolerances = {'unit-tagged floats': 'rel 1e-12 of the largest entry', 'ints / strings / symbols / flags': 'exact',
                  'scaled properties': '1e-12 * cond(cell)', 'untagged floats in the same epoch': 'rel 1e-12'}
    real_components = ['atomman.unitconvert.model / value_unit / error_unit', 'Box.model', 'Atoms.model', 'System.model / System(model=)',
                       'ElasticConstants.model', 'dump/load system_model', 'DataModelDict JSON + XML (xmltodict)',
                       'potentials.tools.uber_open_rmode']
    stub_components = ['process restart (= reset of the working units + dropping every live object)', 'random.seed behind numericalunits',
                       'the file system path / stream handed to the reader (short reads)']
    assumptions = ['a quantity the caller stored without a unit is only promised back in the same working units',
                   'storage units are generated dimensionally correct for the quantity they store',
                   'string values that XML would re-type (numbers, true/false, empty) are not generated',
                   'a refused call between a write and a read (reset_units, a dump onto the same file, System.model, a masses assignment, a record read into a live ElasticConstants) changes nothing that is written or read afterwards']

    # ------------------------------------------------------------------
    def config(self, ctx):
        r = ctx.rng
        return {'nops': r.randint(4, 30), 'w_restart': r.uniform(0.5, 2.0), 'fault_free': r.random() < 0.2,
                'start': r.choice(['default', 'seed', 'SI', 'named'])}

    def init(self, ctx, cfg):
        warnings.simplefilter('ignore')
        st = {'cfg': cfg, 'arts': [], 'epoch': 0, 'base': None, 'scratch': tempfile.mkdtemp(prefix='atomman-verif-c10.'), 'nfile': 0}
        self._epoch(ctx, st, {'kind': cfg['start'], 'seed': 9, 'named': {'length': 'nm', 'energy': 'J'}})
        return st

    def cleanup(self, st):
        shutil.rmtree(st['scratch'], ignore_errors=True)
        uc.reset_units(length='angstrom', mass='amu', energy='eV', charge='e')

    # ------------------------------------------------------------------
    def _epoch(self, ctx, st, op):
        kind = op['kind']
        if kind == 'seed':
            uc.reset_units(op['seed'])
        elif kind == 'unseeded':
            with _RandomSeam(op['entropy']):
                uc.reset_units()
            ctx.probe('unseeded_epoch')
        elif kind == 'SI':
            uc.reset_units('SI')
        elif kind == 'default':
            uc.reset_units(length='angstrom', mass='amu', energy='eV', charge='e')
        else:
            uc.reset_units(**op['named'])
        st['base'] = ut.base_of(nu)
        st['epoch'] += 1
        ctx.ev('epoch', kind, None, {'base': list(st['base'])})

    def _inst(self, st, si, dim):
        return np.asarray(si, dtype=float) * scale_of(st['base'], dim)

    # ------------------------------------------------------------------
    def gen(self, ctx, st):
        r = ctx.rng
        cfg = st['cfg']
        if not st['arts']:
            return self._gen_write(ctx, st)
        k = ctx.wchoice([('write', 1.5), ('restart', cfg['w_restart']), ('read', 3.0), ('rewrite', 0.8),
                         ('refused_reset', 0.0 if cfg['fault_free'] else 0.4)])
        if k == 'refused_reset':
            return {'op': 'refused_reset', 'what': r.choice(['seed_with_names', 'five_named', 'unknown_name'])}
        if k == 'write' and len(st['arts']) >= 10:
            k = 'read'
        if k == 'write':
            return self._gen_write(ctx, st)
        if k == 'restart':
            kind = ctx.wchoice([('seed', 2), ('unseeded', 1), ('named', 2), ('SI', 0.5), ('default', 1)])
            op = {'op': 'restart', 'kind': kind}
            if kind == 'seed':
                op['seed'] = r.getrandbits(31)
            elif kind == 'unseeded':
                op['entropy'] = r.getrandbits(62)
            elif kind == 'named':
                sub = r.choice(SUBSETS)
                op['named'] = {q: r.choice(QNAMES[q]) for q in sub}
            return op
        src = r.choice(streams.SOURCE_KINDS + ['dm'])
        if cfg['fault_free'] and src in ('chunked', 'buffered'):
            src = 'bytesio'
        op = {'op': k, 'a': r.randrange(len(st['arts'])), 'src': src, 'chunks': [r.choice([1, 2, 3, 7, 16, 64, 1000]) for _ in range(4)],
              'bufsize': r.choice([1, 8, 16, 4096]), 'via': r.choice(['ctor', 'method', 'load']), 'recycled': r.random() < 0.5}
        if src in ('chunked', 'buffered') and r.random() < 0.2:
            op['ioerr'] = {'u': r.random(), 'once': r.random() < 0.3}
        if k == 'rewrite':
            op['enc'] = r.choice(['json', 'xml'])
            op['indent'] = r.choice([None, 1, 4])
        return op

    def _gen_units(self, ctx, kind, allow_none=True):
        r = ctx.rng
        dim, names = UNITS_BY_KIND[kind]
        choices = list(names)
        if allow_none and kind != 'none':
            choices.append(None)
        return r.choice(choices)

    def _gen_write(self, ctx, st):
        r = ctx.rng
        what = ctx.wchoice([('value', 2.0), ('box', 1.0), ('atoms', 1.0), ('system', 3.0), ('elastic', 1.0)])
        op = {'op': 'write', 'what': what, 'enc': r.choice(['dm', 'json', 'xml']), 'indent': r.choice([None, None, 1, 2, 4]),
              'dest': r.choice(['return', 'return', 'path', 'stream']), 'layout': r.choice(['C', 'C', 'F', 'strided', 'T'])}
        if what == 'value':
            kind = r.choice(sorted(UNITS_BY_KIND))
            shape = r.choice([(), (), (1,), (3,), (5,), (1, 1), (2, 3), (3, 3), (2, 3, 2), (3, 3, 3), (1, 2, 1)])
            n = int(np.prod(shape)) if shape else 1
            vals = [r.choice([r.uniform(-9, 9), r.uniform(0.1, 9), float(r.randint(-3, 3))]) * SI_SCALE[kind] for _ in range(n)]
            op.update(kind=kind, shape=list(shape), si=vals, unit=self._gen_units(ctx, kind), form=r.choice(['array', 'array', 'list', 'pyfloat']),
                      error=r.random() < 0.2)
        elif what == 'box':
            V = geom.draw_tri_cell(r, 1.0)
            if r.random() < 0.3:
                V = geom.snap_small(V @ geom.random_rotation(r).T)
            op.update(V=(V * 1e-10), origin=(geom.draw_origin(r, float(np.abs(V).max())) * 1e-10), unit=self._gen_units(ctx, 'length', allow_none=False))
        elif what in ('atoms', 'system'):
            n = r.choice([1, 1, 2, 3, 5, 8, 13, 30])
            V = geom.draw_tri_cell(r, 1.0) * r.uniform(1.5, 4)
            if what == 'system' and r.random() < 0.25:
                V = geom.snap_small(V @ geom.random_rotation(r).T)
            elif what == 'system' and r.random() < 0.15:
                # the other triangular convention: zeros below the diagonal (a right-handed cell again after one axis flip)
                V = V.T.copy()
                if np.linalg.det(V) < 0:
                    V[2] = -V[2]
            o = geom.draw_origin(r, float(np.abs(V).max()))
            ntypes = r.randint(1, 4)
            atype = [r.randint(1, ntypes) for _ in range(n)]
            rel = [[r.uniform(-0.2, 1.2) for _ in range(3)] for _ in range(n)]
            pos = (np.array(rel) @ V + o) * 1e-10
            names = sorted(r.sample(sorted(PROPS), r.randint(0, 4)))
            props, units = {}, {}
            for nm in names:
                kind, ts, cls = PROPS[nm]
                cnt = n * (int(np.prod(ts)) if ts else 1)
                if cls == 'int':
                    vals = [r.randint(-9, 9) for _ in range(cnt)]
                elif cls == 'str':
                    vals = [r.choice(NUMLABELS if (op['enc'] != 'xml' and r.random() < 0.3) else LABELS) for _ in range(cnt)]
                else:
                    vals = [r.uniform(-9, 9) * SI_SCALE[kind] for _ in range(cnt)]
                    if ts == () and r.random() < 0.12:      # scalars only: a vector with an infinite component has no box-relative form
                        for _ in range(r.randint(1, 2)):
                            vals[r.randrange(cnt)] = r.choice([float('nan'), float('inf'), float('-inf')])
                props[nm] = vals
                u = self._gen_units(ctx, kind)
                if what == 'system' and ts == (3,) and cls == 'float' and kind == 'length' and r.random() < 0.4:
                    u = 'scaled'        # box-relative storage only makes sense for a length
                units[nm] = u
            pos_unit = r.choice([None, 'angstrom', 'nm', 'm'])
            if what == 'system' and r.random() < 0.3:
                pos_unit = 'scaled'
            units['pos'] = pos_unit
            units['atype'] = None
            op.update(n=n, V=V * 1e-10, origin=o * 1e-10, atype=atype, pos=pos, props=props, units=units,
                      subset=r.choice([False, False, False, False, True, 'one']), by=r.choice(['prop_unit', 'lists', 'default', 'prop_unit', 'lists', 'default', 'unit_only']),
                      int_pos=r.random() < 0.15, redump=r.random() < 0.4)
            if what == 'system':
                nsym = r.choice([0, ntypes, ntypes, ntypes + 1])
                syms = [r.choice(SYMS + [None]) for _ in range(nsym)]
                mas = r.choice([None, None, 'full', 'partial'])
                masses = None
                if mas:
                    masses = [round(r.uniform(1, 200), 4) if (mas == 'full' or r.random() < 0.5) else None for _ in range(max(nsym, ntypes))]
                    if all(x is None for x in masses):
                        masses[0] = 55.845
                    if r.random() < 0.15:
                        # massless placeholder types (shell particles, ghost sites): zero is a mass like any other
                        masses = [0.0 if (x is not None and r.random() < 0.7) else x for x in masses]
                        if not any(x == 0.0 for x in masses if x is not None):
                            masses[0] = 0.0
                op.update(symbols=syms, masses=masses, pbc=[r.random() < 0.6 for _ in range(3)], box_unit=r.choice([None, 'angstrom', 'nm', 'm']),
                          via=r.choice(['model', 'dump']), refused_dump=r.random() < 0.4, refused_first=r.choice([None, None, 'model', 'masses', 'both']), fmt_case=r.choice(['lower', 'lower', 'lower', 'upper', 'title']))
        else:
            # a positive-definite stiffness of a given crystal system, SI (Pa)
            system = r.choice(['triclinic', 'cubic', 'hexagonal', 'orthorhombic', 'isotropic-as-cubic', 'rhombohedral', 'tetragonal'])
            op.update(system=system, C=self._gen_cij(r, system), unit=self._gen_units(ctx, 'pressure'),
                      normalise=r.random() < 0.4, poke_normalized=r.random() < 0.3, refused_read=r.random() < 0.35)
        return op

    @staticmethod
    def _gen_cij(r, system):
        if system == 'triclinic':
            A = np.array([[r.uniform(-1, 1) for _ in range(6)] for _ in range(6)])
            C = A @ A.T + 6 * np.eye(6)
            return (C * 2e10).tolist()
        c11 = r.uniform(150, 300)
        c12 = r.uniform(50, 0.8 * c11)
        c44 = r.uniform(30, 120)
        if system == 'isotropic-as-cubic':
            c44 = (c11 - c12) / 2
        C = np.zeros((6, 6))
        if system in ('cubic', 'isotropic-as-cubic'):
            C[:3, :3] = c12
            np.fill_diagonal(C[:3, :3], c11)
            C[3, 3] = C[4, 4] = C[5, 5] = c44
        elif system in ('rhombohedral', 'tetragonal'):
            # written from the Voigt symmetry tables (Nye), not from atomman
            c13 = r.uniform(40, 0.7 * c11)
            c33 = r.uniform(150, 300)
            C[0, 0] = C[1, 1] = c11
            C[2, 2] = c33
            C[0, 1] = C[1, 0] = c12
            C[0, 2] = C[2, 0] = C[1, 2] = C[2, 1] = c13
            C[3, 3] = C[4, 4] = c44
            if system == 'rhombohedral':
                c14 = r.uniform(-0.3, 0.3) * c44
                c15 = r.choice([0.0, r.uniform(-0.2, 0.2) * c44])
                C[5, 5] = (c11 - c12) / 2
                C[0, 3] = C[3, 0] = c14
                C[1, 3] = C[3, 1] = -c14
                C[4, 5] = C[5, 4] = c14
                C[0, 4] = C[4, 0] = c15
                C[1, 4] = C[4, 1] = -c15
                C[3, 5] = C[5, 3] = -c15
            else:
                c16 = r.choice([0.0, r.uniform(-0.2, 0.2) * c44])
                C[5, 5] = r.uniform(30, 120)
                C[0, 5] = C[5, 0] = c16
                C[1, 5] = C[5, 1] = -c16
        elif system == 'hexagonal':
            c13 = r.uniform(40, 0.7 * c11)
            c33 = r.uniform(150, 300)
            C[0, 0] = C[1, 1] = c11
            C[2, 2] = c33
            C[0, 1] = C[1, 0] = c12
            C[0, 2] = C[2, 0] = C[1, 2] = C[2, 1] = c13
            C[3, 3] = C[4, 4] = c44
            C[5, 5] = (c11 - c12) / 2
        else:
            d = [r.uniform(150, 300) for _ in range(3)]
            od = [r.uniform(40, 100) for _ in range(3)]
            s = [r.uniform(30, 120) for _ in range(3)]
            C[0, 0], C[1, 1], C[2, 2] = d
            C[0, 1] = C[1, 0] = od[0]
            C[0, 2] = C[2, 0] = od[1]
            C[1, 2] = C[2, 1] = od[2]
            C[3, 3], C[4, 4], C[5, 5] = s
        return (C * 1e9).tolist()

    # ------------------------------------------------------------------
    def apply(self, ctx, st, op):
        k = op['op']
        ctx.op(k + ':' + str(op.get('what', op.get('kind', ''))))
        if k == 'restart':
            self._epoch(ctx, st, op)
            ctx.fault('restart')
            return
        if k == 'refused_reset':
            # a request for other working units that is refused: the process goes on in the units it had, and what it wrote
            # before is read back after as if nothing had been asked
            before = tuple(ut.base_of(nu))
            what = op['what']
            if what == 'seed_with_names':
                ok, res = ctx.sut(uc.reset_units, 7, length='angstrom')
            elif what == 'five_named':
                ok, res = ctx.sut(uc.reset_units, length='nm', mass='kg', time='s', energy='eV', charge='e')
            else:
                ok, res = ctx.sut(uc.reset_units, length='angstom', mass='amu')
            ctx.fault('refused_reset')
            now = tuple(ut.base_of(nu))
            if not ok:
                ctx.probe('refused_reset_raised')
                if now != before:
                    raise Violation('C10.J5', {'what': 'a refused reset_units() changed the working units between a write and a read', 'case': what,
                                               'exception': type(res).__name__}, klass='refused-reset-changed-units/' + what)
            elif now != before:
                st['base'] = ut.base_of(nu)         # not refused after all: a new epoch like any other
                st['epoch'] += 1
            return
        if k == 'write':
            art = self._write(ctx, st, op)
            if art is not None:
                st['arts'].append(art)
                if len(st['arts']) > 10:
                    st['arts'].pop(0)
            return
        if not 0 <= op['a'] < len(st['arts']):
            ctx.ev('skip', k)
            return
        art = st['arts'][op['a']]
        obj = self._read(ctx, st, art, op)
        if k == 'rewrite' and obj is not None:
            new = self._rewrite(ctx, st, art, obj, op)
            if new is not None:
                st['arts'].append(new)
                ctx.probe('rewrite_chain')
                if len(st['arts']) > 10:
                    st['arts'].pop(0)

    # -- serialisation helpers
    def _emit(self, ctx, st, dm, enc, indent, dest, clause, klass):
        """DataModelDict -> artifact payload (dm object or text) through the requested destination."""
        if enc == 'dm':
            return {'enc': 'dm', 'dm': dm}
        fn = dm.json if enc == 'json' else dm.xml
        kw = {} if indent is None else {'indent': indent}
        if dest == 'return':
            text = ctx.must(clause, fn, klass=klass + '/' + enc, **kw)
        elif dest == 'path':
            st['nfile'] += 1
            p = os.path.join(st['scratch'], 'w%d.%s' % (st['nfile'], enc))
            with open(p, 'w', encoding='UTF-8') as f:
                ctx.must(clause, fn, fp=f, klass=klass + '/' + enc + '/fp', **kw)
            with open(p, encoding='UTF-8') as f:
                text = f.read()
        else:
            buf = io.StringIO()
            ctx.must(clause, fn, fp=buf, klass=klass + '/' + enc + '/fp', **kw)
            text = buf.getvalue()
        if not isinstance(text, str) or not text:
            raise Violation(clause, {'what': 'writer returned no text', 'enc': enc, 'dest': dest}, klass=klass + '/empty')
        return {'enc': enc, 'text': text}

    def _source(self, ctx, st, art, op):
        """What the reader is handed for this artifact."""
        st['last_raw'] = None
        if art['payload']['enc'] == 'dm':
            ctx.probe('dm_read')
            return art['payload']['dm'], (lambda: None), 'dm'
        src = op['src'] if op['src'] != 'dm' else 'text'
        st['nfile'] += 1
        name = 'r%d.%s' % (st['nfile'], art['payload']['enc'])
        fail_at = None
        io = op.get('ioerr')
        if io and src in ('chunked', 'buffered'):
            nb = len(art['payload']['text'].encode('utf-8'))
            if nb:
                fail_at = min(nb - 1, int(io['u'] * nb))
        obj, closer, raw = streams.make_source(src, art['payload']['text'], st['scratch'], name, op['chunks'], op['bufsize'],
                                               fail_at=fail_at, fail_once=bool(io and io.get('once')))
        st['last_raw'] = raw
        ctx.probe(art['payload']['enc'] + '_read')
        if src == 'path':
            ctx.probe('path_read')
        if src in ('bytesio', 'chunked', 'buffered'):
            ctx.probe('stream_read')
        if src in ('chunked', 'buffered'):
            ctx.fault('short_read_stream')
            ctx.probe('short_read_stream')
        return obj, closer, src

    # -- writing
    def _write(self, ctx, st, op):
        what = op['what']
        t = Truth(what)
        t.epoch = st['epoch']
        enc, indent, dest = op['enc'], op['indent'], op['dest']
        if what == 'value':
            dim, _ = UNITS_BY_KIND[op['kind']]
            shape = tuple(op['shape'])
            si = np.array(op['si'], dtype=float).reshape(shape)
            w = self._inst(st, si, dim)
            unit = op['unit']
            if op['form'] == 'list':
                given = w.tolist()
            elif op['form'] == 'pyfloat' and shape == ():
                given = float(w)
            else:
                given = with_layout(w, op.get('layout', 'C'))
                if isinstance(given, np.ndarray) and given.ndim >= 1 and not given.flags['C_CONTIGUOUS']:
                    ctx.probe('noncontiguous_input')
            kw = {}
            if op.get('error'):
                kw['error'] = np.abs(w) * 0.01
                ctx.probe('error_field')
            keep_v = np.array(given, copy=True) if isinstance(given, np.ndarray) else None
            keep_e = np.array(kw['error'], copy=True) if 'error' in kw else None
            vm = ctx.must('C10.J1', uc.model, given, unit, klass='uc.model/%s/%s' % (op['form'], 'unit' if unit else 'nounit'), **kw)
            if (keep_v is not None and not np.array_equal(keep_v, given)) or (keep_e is not None and not np.array_equal(keep_e, kw['error'])):
                raise Violation('C10.J7', {'what': 'uc.model changed the array it was given', 'which': 'value' if (keep_v is not None and not np.array_equal(keep_v, given)) else 'error',
                                           'unit': unit}, klass='mutated-by-write/value')
            root = DM()
            root['quantity'] = vm
            t.fields['value'] = {'si': si, 'dim': dim, 'tagged': unit is not None}
            if op.get('error'):
                t.fields['error'] = {'si': np.abs(si) * 0.01, 'dim': dim, 'tagged': unit is not None}
            if shape in ((1,), (1, 1), (1, 2, 1)):
                ctx.probe('length1_array')
            if len(shape) == 3:
                ctx.probe('rank3_value')
            payload = self._emit(ctx, st, root, enc, indent, dest, 'C10.J4', 'value')
        elif what == 'box':
            V = self._inst(st, op['V'], ut.L_)
            o = self._inst(st, op['origin'], ut.L_)
            box = ctx.must('C10.X', am.Box, vects=V, origin=o, klass='Box()')
            bm = ctx.must('C10.J3', box.model, length_unit=op['unit'], klass='Box.model')
            t.fields['vects'] = {'si': np.array(op['V'], dtype=float), 'dim': ut.L_, 'tagged': True}
            t.fields['origin'] = {'si': np.array(op['origin'], dtype=float), 'dim': ut.L_, 'tagged': True}
            payload = self._emit(ctx, st, bm, enc, indent, dest, 'C10.J4', 'box')
        elif what in ('atoms', 'system'):
            payload = self._write_atoms_system(ctx, st, op, t)
            if payload is None:
                return None
        else:
            C = self._inst(st, op['C'], ut.PRESSURE)
            ec = ctx.must('C10.X', am.ElasticConstants, Cij=C, klass='ElasticConstants()')
            cs = 'triclinic'
            if op['normalise'] and op['system'] != 'triclinic':
                cs = 'cubic' if op['system'].endswith('cubic') else op['system']
                ctx.probe('elastic_normalised')
            if op.get('poke_normalized'):
                # normalized_as() is documented to return a NEW object: what the caller does to it is the caller's business
                nobj = ctx.must('C10.J6', ec.normalized_as, cs, klass='ElasticConstants.normalized_as/' + cs)
                nobj.Cij = np.asarray(nobj.Cij) * 2.0 + 1.0e-3 * float(np.abs(C).max())
                ctx.fault('scribble_on_normalized_copy')
                ctx.probe('scribble_on_normalized_copy')
            if op.get('refused_read') and not st['cfg']['fault_free']:
                # the live object is asked to take its constants from a record it has to refuse (one of two symmetric entries
                # edited): it goes on holding what it held
                badrec = DM(ec.model(unit='GPa').json())
                vals = badrec['elastic-constants']['Cij']['value']
                vals[1] = vals[1] * 2.5 + 1.0
                ok2, _ = ctx.sut(ec.model, model=badrec)
                ctx.fault('refused_record')
                if not ok2:
                    ctx.probe('refused_record_raised')
                else:
                    # taken after all (the symmetry test is absolute in working units and these are tiny numbers here): the
                    # caller asked for it, so start again from the constants of this operation
                    ec = ctx.must('C10.X', am.ElasticConstants, Cij=C, klass='ElasticConstants()')
            em = ctx.must('C10.J6', ec.model, unit=op['unit'], crystal_system=cs, klass='ElasticConstants.model/' + cs)
            t.fields['Cij'] = {'si': np.array(op['C'], dtype=float), 'dim': ut.PRESSURE, 'tagged': op['unit'] is not None}
            payload = self._emit(ctx, st, em, enc, indent, dest, 'C10.J4', 'elastic')
        ctx.ev('op', 'write', {'what': what, 'enc': enc, 'dest': dest, 'indent': indent},
               {'text': payload.get('text', '')[:0], 'n': len(payload.get('text', ''))})
        return {'truth': t, 'payload': payload, 'what': what}

    def _write_atoms_system(self, ctx, st, op, t):
        what = op['what']
        n = op['n']
        V = self._inst(st, op['V'], ut.L_)
        o = self._inst(st, op['origin'], ut.L_)
        pos = self._inst(st, op['pos'], ut.L_)
        arrs = {}
        for nm, vals in sorted(op['props'].items()):
            if nm not in PROPS:
                continue
            kind, ts, cls = PROPS[nm]
            dim = UNITS_BY_KIND[kind][0]
            if cls == 'float':
                arrs[nm] = self._inst(st, np.array(vals, dtype=float).reshape((n,) + ts), dim)
            elif cls == 'int':
                arrs[nm] = np.array(vals, dtype=int).reshape((n,) + ts)
            else:
                arrs[nm] = np.array(vals).reshape((n,) + ts)
                ctx.probe('string_property')
        pos_si = np.array(op['pos'], dtype=float)
        if op.get('int_pos') and float(np.abs(pos).max()) > 2.0:
            # whole-number coordinates in working units, in the integer-typed array np.array([[0, 0, 0], [1, 2, 3]]) gives
            pos = np.round(pos).astype(int)
            pos_si = pos / scale_of(st['base'], ut.L_)
            ctx.probe('integer_typed_positions')
        lay = op.get('layout', 'C')
        if lay != 'C':
            pos = with_layout(pos, lay)
            arrs = {nm: (with_layout(a, lay) if a.dtype.kind in 'fi' else a) for nm, a in arrs.items()}
            if not pos.flags['C_CONTIGUOUS']:
                ctx.probe('noncontiguous_input')
        atoms = ctx.must('C10.X', am.Atoms, atype=np.array(op['atype'], dtype=int), pos=pos, klass='Atoms()', **arrs)
        snap = {nm: np.array(atoms.view[nm]) for nm in atoms.view}
        redump_scale = {}
        system = None
        kw_before = None
        units = dict(op['units'])
        names = ['atype', 'pos'] + sorted(arrs)
        if op['subset'] == 'one' and what == 'system':
            names = ['pos']                 # a record with exactly one per-atom property
            ctx.probe('single_property_record')
        elif op['subset'] and len(names) > 2:
            names = names[:-1]
        if n == 1:
            ctx.probe('one_atom_system')
        # how the caller states the storage units
        by = op['by']
        if by == 'default' and what == 'atoms':
            kw = {}
            eff = {nm: None for nm in names}
            eff['pos'] = 'angstrom'
            names = ['atype', 'pos'] + sorted(arrs)
        elif by == 'default':
            kw = {}
            eff = {nm: None for nm in ['atype', 'pos'] + sorted(arrs)}
            eff['pos'] = 'angstrom'
            names = ['atype', 'pos'] + sorted(arrs)
        elif by == 'unit_only':
            # a unit for every property the object holds, in the object's own order, and no list of names
            names = list(atoms.prop())
            kw = {'unit': [units.get(nm) for nm in names]}
            eff = {nm: units.get(nm) for nm in names}
            if eff.get('pos') is None:
                eff['pos'] = 'angstrom'
            ctx.probe('units_given_without_names')
        elif by == 'lists':
            kw = {'prop_name': list(names), 'unit': [units.get(nm) for nm in names]}
            eff = {nm: units.get(nm) for nm in names}
            if eff.get('pos') is None:
                eff['pos'] = 'angstrom'
        else:
            kw = {'prop_unit': {nm: units.get(nm) for nm in names}}
            eff = {nm: units.get(nm) for nm in names}
            if eff.get('pos') is None:
                eff['pos'] = 'angstrom'
        import copy as _copy
        if what == 'atoms':
            eff = {k2: (None if v == 'scaled' else v) for k2, v in eff.items()}
            for k2 in ('unit', 'prop_unit'):
                if k2 in kw:
                    kw[k2] = ([None if v == 'scaled' else v for v in kw[k2]] if k2 == 'unit' else
                              {a: (None if v == 'scaled' else v) for a, v in kw[k2].items()})
            if 'prop_unit' in kw and kw['prop_unit'].get('pos') is None:
                pass
            kw_before = _copy.deepcopy(kw)
            m = ctx.must('C10.J1', atoms.model, klass='Atoms.model/' + by, **kw)
        else:
            box = ctx.must('C10.X', am.Box, vects=V, origin=o, klass='Box()')
            skw = {}
            syms = list(op['symbols'])
            if syms:
                skw['symbols'] = syms
            if op['masses'] is not None:
                ntyp = max(max(op['atype']), len(syms))
                skw['masses'] = list(op['masses'])[:ntyp]
            pbc = [bool(x) for x in op['pbc']]
            system = ctx.must('C10.X', am.System, atoms=atoms, box=box, pbc=pbc, klass='System()', **skw)
            snap_box = (np.array(system.box.vects), np.array(system.box.origin))
            ff = st['cfg']['fault_free']
            if not ff and op.get('refused_first') in ('model', 'both'):
                # a first request that the library has to refuse (box-relative positions asked for together with a unit that does
                # not exist): the system it was made on is written afterwards and must be what it was
                ok2, _ = ctx.sut(system.model, prop_unit={'atype': 'no_such_unit', 'pos': 'scaled'})
                ctx.fault('refused_model')
                if not ok2:
                    ctx.probe('refused_model_raised')
            if not ff and op.get('refused_first') in ('masses', 'both'):
                ok2, _ = ctx.sut(setattr, system, 'masses', [1.5] * (len(system.symbols) + 1))
                ctx.fault('refused_masses')
                if not ok2:
                    ctx.probe('refused_masses_raised')
            kw['box_unit'] = op['box_unit']
            kw_before = _copy.deepcopy(kw)
            if op['via'] == 'dump' and op['enc'] != 'dm':
                fmt = op['enc']
                fc = op.get('fmt_case', 'lower')
                if fc != 'lower':
                    fmt = fmt.upper() if fc == 'upper' else fmt.title()        # format='XML', 'Json': accepted in any case
                    ctx.probe('format_name_not_lower_case')
                ikw = {} if op['indent'] is None else {'indent': op['indent']}
                if op['dest'] == 'return':
                    text = ctx.must('C10.J4', system.dump, 'system_model', format=fmt, klass='dump/system_model/' + fmt, **ikw, **kw)
                    fl = [nm for nm in sorted(arrs) if arrs[nm].dtype.kind == 'f' and nm in names and units.get(nm) != 'scaled']
                    if op.get('redump') and fl:
                        # the caller updates a property of the live system (positions untouched) and writes the SAME object again:
                        # the second record must hold the new values
                        nm2 = fl[0]
                        system.atoms.view[nm2][...] *= 1.5
                        redump_scale[nm2] = 1.5
                        snap[nm2] = np.array(system.atoms.view[nm2])
                        text = ctx.must('C10.J4', system.dump, 'system_model', format=fmt, klass='dump/system_model/again/' + fmt, **ikw, **kw)
                        ctx.probe('same_object_dumped_again_after_edit')
                elif op['dest'] == 'path':
                    st['nfile'] += 1
                    p = os.path.join(st['scratch'], 'd%d.%s' % (st['nfile'], op['enc']))
                    ctx.must('C10.J4', system.dump, 'system_model', f=p, klass='dump/system_model/path', **ikw, **kw)
                    if op.get('refused_dump') and not st['cfg']['fault_free']:
                        # a second request for the same file that the library refuses (unknown unit): the file keeps the first dump
                        bad = {k2: v for k2, v in kw.items() if k2 not in ('prop_unit', 'prop_name', 'unit')}
                        bad['prop_unit'] = {'atype': None, 'pos': 'no_such_unit'}
                        ok2, _ = ctx.sut(system.dump, 'system_model', f=p, **ikw, **bad)
                        ctx.fault('refused_dump')
                        if not ok2:
                            ctx.probe('refused_dump_raised')
                    with open(p, encoding='UTF-8') as f:
                        text = f.read()
                else:
                    buf = io.StringIO()
                    ctx.must('C10.J4', system.dump, 'system_model', f=buf, format=fmt, klass='dump/system_model/stream', **ikw, **kw)
                    text = buf.getvalue()
                m = None
                payload = {'enc': op['enc'], 'text': text}
            else:
                m = ctx.must('C10.J1', system.model, klass='System.model/' + by, **kw)
            nt = max(op['atype'])
            wsym = syms + [None] * max(0, nt - len(syms))
            t.fields['symbols'] = {'exact': wsym}
            if any(s is None for s in wsym):
                ctx.probe('symbols_with_gap')
            t.fields['pbc'] = {'exact': pbc}
            if op['masses'] is not None:
                mm = list(skw['masses'])
                mm = mm + [None] * max(0, max(nt, len(wsym)) - len(mm))
                t.fields['masses'] = {'raw': mm}
                if any(x is None for x in mm):
                    ctx.probe('masses_partly_none')
                if any(x == 0.0 for x in mm if x is not None):
                    ctx.probe('mass_zero')
            else:
                t.fields['masses'] = {'raw': None}
            boxtag = op['box_unit'] is not None
            t.fields['vects'] = {'si': np.array(op['V'], dtype=float), 'dim': ut.L_, 'tagged': boxtag}
            t.fields['origin'] = {'si': np.array(op['origin'], dtype=float), 'dim': ut.L_, 'tagged': boxtag}
            t.meta['box_tagged'] = boxtag
        # the caller re-uses its argument objects (a prop_unit dict, name and unit lists) for a second write of the same
        # object: the second record must say what the first said
        if kw_before is not None and m is not None:
            again = ctx.must('C10.J1', (system.model if system is not None else atoms.model), klass='model/second-write/' + by, **kw)
            if again.json() != m.json():
                raise Violation('C10.J7', {'what': 'a second write of the same object with the same argument objects gives a different record',
                                           'arguments_before_first_write': repr(kw_before)[:300], 'arguments_now': repr(kw)[:300]},
                                klass='second-write/' + what)
            ctx.probe('second_write_same_arguments')
        # "the original" is the object the caller still holds: writing it out must not have changed it
        live = system.atoms if system is not None else atoms
        for nm, before in snap.items():
            now = np.asarray(live.view[nm])
            same = now.shape == before.shape and (np.array_equal(now, before, equal_nan=True) if before.dtype.kind == 'f'
                                                  else np.array_equal(now, before))
            if not same:
                raise Violation('C10.J7', {'what': 'serialising changed the object that was serialised', 'property': nm,
                                           'before': before, 'after': now, 'via': op.get('via'), 'units': op['units'].get(nm)},
                                klass='mutated-by-write/%s/%s' % (what, 'pos' if nm == 'pos' else 'prop'))
        if system is not None and not (np.array_equal(system.box.vects, snap_box[0]) and np.array_equal(system.box.origin, snap_box[1])):
            raise Violation('C10.J7', {'what': 'serialising changed the box of the system that was serialised'}, klass='mutated-by-write/box')
        t.fields['natoms'] = {'exact': n}
        t.meta['names'] = list(names)
        for nm in names:
            u = eff.get(nm)
            if nm == 'atype':
                t.fields['p:atype'] = {'exact_arr': np.array(op['atype'], dtype=int)}
            elif nm == 'pos':
                t.fields['p:pos'] = {'si': pos_si, 'dim': ut.L_, 'tagged': (u != 'scaled') or t.meta.get('box_tagged', False),
                                     'scaled': u == 'scaled'}
            else:
                kind, ts, cls = PROPS[nm]
                if cls == 'float':
                    dim = UNITS_BY_KIND[kind][0]
                    si = np.array(op['props'][nm], dtype=float).reshape((n,) + ts) * redump_scale.get(nm, 1.0)
                    if u == 'scaled':
                        # stored box-relative: survives an epoch change only together with a unit-tagged box
                        t.fields['p:' + nm] = {'si': si, 'dim': dim, 'tagged': False, 'scaled': True, 'scaled_dim': dim}
                    else:
                        t.fields['p:' + nm] = {'si': si, 'dim': dim, 'tagged': u is not None}
                elif cls == 'int':
                    t.fields['p:' + nm] = {'exact_arr': np.array(op['props'][nm], dtype=int).reshape((n,) + ts)}
                else:
                    t.fields['p:' + nm] = {'exact_arr': np.array(op['props'][nm]).reshape((n,) + ts)}
            if u == 'scaled':
                ctx.probe('scaled_property')
        if what == 'system' and m is None:
            return payload
        return self._emit(ctx, st, m, op['enc'], op['indent'], op['dest'], 'C10.J4', what)

    # -- reading and comparing
    def _read(self, ctx, st, art, op):
        t = art['truth']
        what = art['what']
        src_obj, closer, src = self._source(ctx, st, art, op)
        changed = t.epoch != st['epoch']
        if changed:
            ctx.probe('read_in_other_epoch')
        klass = '%s/%s/%s' % (what, art['payload']['enc'], src)
        try:
            if what == 'value':
                dm = ctx.must('C10.J4', DM, src_obj, klass='DM()/' + klass)
                q = dm['quantity']
                got = ctx.must('C10.J2', uc.value_unit, q, klass='value_unit/' + klass)
                obj = {'value': np.asarray(got)}
                if 'error' in t.fields:
                    obj['error'] = np.asarray(ctx.must('C10.J2', uc.error_unit, q, klass='error_unit/' + klass))
            elif what == 'box':
                if op['via'] == 'method':
                    if op.get('recycled'):
                        # the caller re-uses a Box that has already served another cell
                        b = am.Box(vects=np.diag([2.0, 3.0, 4.0]), origin=[1.0, 1.0, 1.0])
                        b.position_cartesian_to_relative([0.1, 0.2, 0.3])
                        ctx.probe('box_read_into_used_object')
                    else:
                        b = am.Box()
                    ctx.must('C10.J3', b.model, src_obj, klass='Box.model(read)/' + klass)
                else:
                    b = ctx.must('C10.J3', am.Box, model=src_obj, klass='Box(model)/' + klass)
                obj = {'vects': b.vects, 'origin': b.origin, '_obj': b}
                # the object that came back must BE that cell, not only report its vectors
                rel0 = np.array([0.3, 0.6, 0.2])
                P = rel0 @ b.vects + b.origin
                back = np.asarray(ctx.must('C10.J3', b.position_cartesian_to_relative, P, klass='Box(read).cart2rel'))
                if not np.allclose(back, rel0, rtol=0, atol=1e-9):
                    raise Violation('C10.J3', {'what': 'the Box read back does not behave as the cell it reports '
                                                        '(cartesian->relative of a point built from its own vects/origin)',
                                               'got': back, 'want': rel0, 'via': op['via'], 'recycled': bool(op.get('recycled'))},
                                    klass='box/behaviour/' + ('recycled' if op.get('recycled') else 'fresh'))
            elif what == 'atoms':
                a = ctx.must('C10.J1', am.Atoms, model=src_obj, klass='Atoms(model)/' + klass)
                obj = {'_obj': a, 'natoms': a.natoms}
                for nm in a.view:
                    obj['p:' + nm] = np.asarray(a.view[nm])
            elif what == 'system':
                if op['via'] == 'load':
                    s = ctx.must('C10.J1', am.load, 'system_model', src_obj, klass='load(system_model)/' + klass)
                else:
                    s = ctx.must('C10.J1', am.System, model=src_obj, klass='System(model)/' + klass)
                obj = {'_obj': s, 'natoms': s.natoms, 'vects': s.box.vects, 'origin': s.box.origin, 'symbols': list(s.symbols),
                       'masses': list(s.masses), 'pbc': [bool(x) for x in s.pbc]}
                for nm in s.atoms.view:
                    obj['p:' + nm] = np.asarray(s.atoms.view[nm])
            else:
                if op['via'] == 'method':
                    e = am.ElasticConstants()
                    ctx.must('C10.J6', e.model, src_obj, klass='ElasticConstants.model(read)/' + klass)
                else:
                    e = ctx.must('C10.J6', am.ElasticConstants, model=src_obj, klass='ElasticConstants(model)/' + klass)
                obj = {'_obj': e, 'Cij': np.asarray(e.Cij)}
        except Violation as v:
            # a read may fail on a disk error under the reader; it may never return wrong content
            raw = st.get('last_raw')
            if raw is not None and getattr(raw, 'io_errors', 0) > 0 and 'exception' in v.detail:
                ctx.fault('io_error_under_reader')
                ctx.probe('io_error_read_raised')
                ctx.ev('op', 'read-failed', {'what': what, 'src': src})
                return None
            raise
        finally:
            closer()
        raw = st.get('last_raw')
        if raw is not None and getattr(raw, 'io_errors', 0) > 0:
            ctx.fault('io_error_under_reader')
            ctx.probe('io_error_read_completed')
        self._compare(ctx, st, t, obj, changed, klass)
        shape_class = ''
        if what == 'value':
            sh = t.fields['value']['si'].shape
            shape_class = 'r%d%s' % (len(sh), '-len1' if 1 in sh else '')
        pattern = ','.join(sorted('%s=%s' % (k2[2:], 'T' if f.get('tagged') else ('S' if f.get('scaled') else 'U'))
                                   for k2, f in t.fields.items() if k2.startswith('p:') and 'si' in f))[:60]
        ctx.sig(what, art['payload']['enc'], src, changed, pattern, shape_class, op.get('via'))
        if changed or src in ('chunked', 'buffered'):
            ctx.changes += 2
        ctx.ev('op', 'read', {'what': what, 'src': src, 'changed': changed})
        return obj

    def _compare(self, ctx, st, t, obj, changed, klass):
        base = st['base']
        box_ok = True
        for name, f in sorted(t.fields.items()):
            if 'exact' in f:
                if name not in obj or obj[name] != f['exact']:
                    raise Violation('C10.J3', {'what': 'field differs', 'field': name, 'got': obj.get(name), 'want': f['exact']}, klass='exact/%s/%s' % (name, klass))
                continue
            if 'raw' in f:
                got = obj.get(name)
                if f['raw'] is None:
                    if got is not None and any(x is not None for x in got):
                        raise Violation('C10.J3', {'what': 'masses appeared', 'got': got}, klass='masses/' + klass)
                    continue
                if changed:
                    # stored without a unit: only their pattern (which are None) survives a restart
                    if [x is None for x in got[:len(f['raw'])]] != [x is None for x in f['raw']]:
                        raise Violation('C10.J3', {'what': 'masses None pattern', 'got': got, 'want': f['raw']}, klass='masses/' + klass)
                    continue
                ok = len(got) >= len(f['raw']) and all((a is None and b is None) or (a is not None and b is not None and abs(a - b) <= RT * abs(b))
                                                        for a, b in zip(got, f['raw'])) and all(x is None for x in got[len(f['raw']):])
                if not ok:
                    raise Violation('C10.J3', {'what': 'masses differ', 'got': got, 'want': f['raw']}, klass='masses/' + klass)
                continue
            if 'exact_arr' in f:
                got = obj.get(name)
                want = f['exact_arr']
                if got is None:
                    raise Violation('C10.J1', {'what': 'property missing after round trip', 'field': name}, klass='missing/' + klass)
                if tuple(got.shape) != tuple(want.shape):
                    raise Violation('C10.J1', {'what': 'shape changed', 'field': name, 'got': list(got.shape), 'want': list(want.shape)},
                                    klass='shape/%s/%s' % (name, klass))
                if want.dtype.kind in 'iu' and got.dtype.kind not in 'iu':
                    raise Violation('C10.J2', {'what': 'integer property came back as another type', 'field': name, 'dtype': str(got.dtype)},
                                    klass='dtype/%s/%s' % (name, klass))
                if not np.array_equal(got, want):
                    raise Violation('C10.J2', {'what': 'values differ', 'field': name, 'got': got, 'want': want}, klass='value/%s/%s' % (name, klass))
                continue
            # physical quantity
            si, dim = f['si'], f['dim']
            got = obj.get(name)
            if got is None:
                raise Violation('C10.J1', {'what': 'quantity missing after round trip', 'field': name}, klass='missing/' + klass)
            got = np.asarray(got)
            if tuple(got.shape) != tuple(si.shape):
                k2 = 'shape/%s/%s' % (name, klass)
                if '/xml/' in klass + '/' and tuple(si.shape) == (1,) and tuple(got.shape) == () and t.kind == 'value':
                    k2 = 'xml-length1-vector'        # input class of the known finding; independent of the source kind
                raise Violation('C10.J1', {'what': 'shape changed', 'field': name, 'got': list(got.shape), 'want': list(si.shape)},
                                klass=k2)
            comparable = f['tagged'] or not changed
            if f.get('scaled'):
                comparable = (not changed) or t.meta.get('box_tagged', False)
            if not comparable:
                continue
            if got.dtype.kind not in 'fiu':
                raise Violation('C10.J2', {'what': 'numeric quantity came back non-numeric', 'field': name, 'dtype': str(got.dtype)}, klass='dtype/' + klass)
            phys = got.astype(float) / scale_of(base, dim)
            fin = np.isfinite(si)
            if not np.all(fin):
                # not-a-number and infinite entries (a diverged per-atom quantity) must come back as what they were
                same = (np.isnan(phys) & np.isnan(si)) | ((phys == si) & ~fin)
                if not np.all(same[~fin]) or np.any(~np.isfinite(phys[fin])):
                    raise Violation('C10.J2', {'what': 'non-finite entries not reproduced', 'field': name, 'got': phys, 'want': si},
                                    klass='nonfinite/%s/%s' % (name, klass))
                ctx.probe('nonfinite_values_round_tripped')
                phys = np.where(fin, phys, 0.0)
                si = np.where(fin, si, 0.0)
            tol = RT * max(float(np.abs(si).max()), 1e-300)
            if f.get('scaled'):
                Vsi = t.fields['vects']['si']
                tol *= max(1.0, float(np.linalg.cond(Vsi))) * (1 + float(np.abs(t.fields['origin']['si']).max()) / float(np.abs(Vsi).max())) * 4
                if name != 'p:pos':
                    tol = max(tol, RT * 16 * float(np.abs(Vsi).max()) * 0)   # vectors go through the same point map
            if not np.all(np.abs(phys - si) <= tol):
                i = int(np.argmax(np.abs(phys - si)))
                raise Violation('C10.J5' if changed else 'C10.J2', {'what': 'physical value differs after round trip', 'field': name,
                                'got_SI': phys.reshape(-1)[i], 'want_SI': si.reshape(-1)[i], 'epoch_changed': changed, 'tagged': f['tagged'],
                                'scaled': bool(f.get('scaled'))}, klass='phys/%s/%s' % (name, klass))
        # nothing extra may appear
        if t.kind in ('atoms', 'system'):
            extra = sorted(k2 for k2 in obj if k2.startswith('p:') and k2 not in t.fields)
            if 'p:atype' in extra and 'p:atype' not in t.fields and np.all(np.asarray(obj['p:atype']) == 1):
                extra.remove('p:atype')     # a record written without atype reads back with the documented default type 1
            if extra:
                raise Violation('C10.J1', {'what': 'properties appeared that were not written', 'extra': extra}, klass='extra/' + klass)

    def _rewrite(self, ctx, st, art, obj, op):
        """Write what was just read again, under the current epoch; the truth carries over for
        fields that are still meaningful (unit-tagged, or epoch unchanged)."""
        t0 = art['truth']
        what = art['what']
        changed = t0.epoch != st['epoch']
        t = Truth(what)
        t.epoch = st['epoch']
        t.meta = dict(t0.meta)
        o = obj.get('_obj')
        enc, indent = op['enc'], op['indent']
        if enc == 'xml' and any(isinstance(f.get('exact_arr'), np.ndarray) and f['exact_arr'].dtype.kind in 'US'
                                and any(str(x) in NUMLABELS[:6] for x in f['exact_arr'].reshape(-1)) for f in t0.fields.values()):
            enc = 'json'
        if what == 'value':
            return None
        if what == 'box':
            m = ctx.must('C10.J3', o.model, length_unit='nm', klass='Box.model')
            t.fields = {k2: dict(v) for k2, v in t0.fields.items()}
        elif what == 'elastic':
            if changed and not t0.fields['Cij']['tagged']:
                return None
            m = ctx.must('C10.J6', o.model, unit='GPa', klass='ElasticConstants.model/triclinic')
            t.fields = {'Cij': dict(t0.fields['Cij'], tagged=True)}
        else:
            # keep only what is still meaningful in this epoch
            keep = {}
            for k2, f in t0.fields.items():
                if 'si' in f:
                    ok = f['tagged'] or not changed
                    if f.get('scaled'):
                        ok = (not changed) or t0.meta.get('box_tagged', False)
                    if not ok:
                        return None
                keep[k2] = dict(f)
            if changed and t0.fields.get('masses', {}).get('raw'):
                return None
            if what == 'system' and changed and not t0.meta.get('box_tagged', False):
                return None
            names = list(t0.meta['names'])
            pu = {}
            for nm in names:
                f = keep.get('p:' + nm, {})
                if nm == 'pos':
                    pu[nm] = 'angstrom'
                    keep['p:pos'] = dict(f, tagged=True, scaled=False)
                elif 'si' in f and any(f['dim']):
                    kind = [k3 for k3, (d, _) in UNITS_BY_KIND.items() if d == f['dim']][0]
                    pu[nm] = UNITS_BY_KIND[kind][1][0]
                    keep['p:' + nm] = dict(f, tagged=True, scaled=False)
                else:
                    pu[nm] = None
                    if 'si' in f:
                        keep['p:' + nm] = dict(f, scaled=False)
            if what == 'atoms':
                m = ctx.must('C10.J1', o.model, prop_unit=pu, klass='Atoms.model/prop_unit')
            else:
                m = ctx.must('C10.J1', o.model, box_unit='angstrom', prop_unit=pu, klass='System.model/prop_unit')
                keep['vects'] = dict(keep['vects'], tagged=True)
                keep['origin'] = dict(keep['origin'], tagged=True)
                t.meta['box_tagged'] = True
            t.fields = keep
        payload = self._emit(ctx, st, m, enc, indent, 'return', 'C10.J4', what)
        ctx.ev('op', 'rewrite', {'what': what, 'enc': enc})
        return {'truth': t, 'payload': payload, 'what': what}

    def nontrivial(self, ctx):
        return ctx.changes >= 2

    def simplify(self, op):
        out = []
        if op.get('indent') is not None:
            out.append(dict(op, indent=None))
        if op.get('src') in ('chunked', 'buffered', 'bytesio', 'path'):
            out.append(dict(op, src='text'))
        if op.get('dest') in ('path', 'stream'):
            out.append(dict(op, dest='return'))
        if op.get('layout', 'C') != 'C':
            out.append(dict(op, layout='C'))
        return out
