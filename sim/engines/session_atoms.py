"""C06 — a pool of live Atoms/System objects driven through edit histories by
one caller, against a record-per-atom reference model.

Fault vocabulary (thin, and said so in DESIGN.md): operations refused part-way,
the caller scribbling on arrays it was handed by a copying accessor or passed in
with safecopy=True, and writes through children that may share memory with their
parent (undocumented sharing: affected cells accepted as old-or-new, all else
exact).
"""

import copy
import warnings
from collections import OrderedDict

import numpy as np

from .. import geom
from ..kernel import Engine, Violation

import atomman as am

NAMES = ['charge', 'vel', 'stress', 'tag', 'flag', 'name', 'q6', 'q7', 'p', 's', 'os']     # 'p' momentum, 's' spin: also pieces of 'pos'
CLASSES = ['int', 'float', 'bool', 'str']
TSHAPES = [(), (), (3,), (3, 3), (2, 2, 2), (2,)]
STRS = ['aa', 'bb', 'cd', 'xy', 'Fe', 'Al', 'zz', 'q1']
SYMS = ['Al', 'Cu', 'Fe', 'Ni', 'Mg', 'Ti']
POOL_MAX = 6
NMAX = 20


def kind_of(arr):
    k = np.asarray(arr).dtype.kind
    return {'i': 'int', 'u': 'int', 'f': 'float', 'b': 'bool', 'U': 'str'}.get(k, k)


def veq(a, b, cls):
    if cls == 'float':
        a = np.asarray(a, dtype=float)
        b = np.asarray(b, dtype=float)
        return a.shape == b.shape and bool(np.all(np.abs(a - b) <= 1e-9 * (1.0 + np.abs(b))))
    a = np.asarray(a)
    b = np.asarray(b)
    return a.shape == b.shape and bool(np.all(a == b))


class MObj:
    """Record-per-atom model of one Atoms (and, for Systems, box/pbc/symbols/masses)."""

    def __init__(self, uid, kind):
        self.uid = uid
        self.kind = kind
        self.reg = OrderedDict()        # name -> (cls, tshape)
        self.rows = []                  # list of {name: value}
        self.cands = {}                 # (name,row) -> [acceptable alternative values]
        self.links = {}                 # other uid -> {my row: other row}
        self.real = None
        self.V = self.o = None
        self.pbc = None
        self.symbols = None
        self.masses = None
        self.box_shared = False
        self.box_group = None
        self.box_cands = []

    @property
    def n(self):
        return len(self.rows)

    @property
    def atoms(self):
        return self.real.atoms if self.kind == 'system' else self.real

    def natypes(self):
        return max(int(r['atype']) for r in self.rows) if self.rows else 0

    def column(self, name):
        cls, ts = self.reg[name]
        vals = [r[name] for r in self.rows]
        if cls == 'str':
            return np.array(vals, dtype='<U2').reshape((len(vals),) + tuple(ts))
        dt = {'int': 'int64', 'float': 'float64', 'bool': 'bool'}[cls]
        return np.array(vals, dtype=dt).reshape((len(vals),) + tuple(ts))


def zero_of(cls, ts):
    z = {'int': 0, 'float': 0.0, 'bool': False, 'str': ''}[cls]
    if ts == ():
        return z
    return np.full(ts, z, dtype={'int': 'int64', 'float': 'float64', 'bool': 'bool', 'str': '<U2'}[cls])


def resolve(index, n):
    """Independent index semantics: returns the list of rows an index denotes, or None."""
    k = index['k']
    if k == 'all':
        return list(range(n))
    if k == 'int':
        i = index['i']
        if -n <= i < n:
            return [i % n] if i >= 0 else [n + i]
        return None
    if k == 'slice':
        rows = list(range(n))[slice(index['a'], index['b'], index['s'])]
        return rows or None
    if k == 'list':
        rows = []
        for i in index['l']:
            if not -n <= i < n:
                return None
            rows.append(i if i >= 0 else n + i)
        return rows or None
    if k == 'mask':
        m = index['m']
        if len(m) != n:
            return None
        rows = [i for i, b in enumerate(m) if b]
        return rows or None
    return None


def real_index(index):
    k = index['k']
    if k == 'all':
        return slice(None)
    if k == 'int':
        return int(index['i'])
    if k == 'slice':
        return slice(index['a'], index['b'], index['s'])
    if k == 'list':
        if index.get('lform') == 'array':
            return np.array([int(i) for i in index['l']], dtype=int)
        return [int(i) for i in index['l']]
    if index.get('mform') == 'list':
        return [bool(b) for b in index['m']]          # a mask given as a plain Python list of bools
    return np.array(index['m'], dtype=bool)


class AtomsEngine(Engine):
    prop = 'C06'
    name = 'session_atoms'
    max_ops = 50
    expected_probes = ['inplace_overwrite_other_dtype', 'alias_candidate_used', 'refused_raised', 'scribble_result',
                       'scribble_safecopy', 'setitem_overlap', 'extend_new_props_both_sides', 'natypes_grew', 'readonly_reassign_refused', 'noncontiguous_input', 'atype_lt1_scalar_forms', 'atype_lt1_unusual_dtype', 'default_constructed_object', 'types_renumbered_through_prop_atype', 'scaled_access_by_a_id', 'symbol_as_numpy_string', 'integer_typed_positions', 'atoms_df_scale_list', 'assigned_a_view_of_itself', 'view_set_through_mapping_method', 'refused_setitem_same_number_of_properties', 'refused_prop_atype_on_new_key', 'refused_system_constructor', 'refused_new_property_of_wrong_length', 'refused_value_shaped_like_one_entry', 'scaled_read_of_a_non_vector', 'atoms_df_scale_given_as_one_name', 'held_table_checked_after_edits', 'scribble_on_table',
                       'negative_index', 'mask_index', 'scaled_write', 'prop_atype_single_new_key', 'df_checked',
                       'box_set_with_possible_sharers', 'box_alias_candidate_used']
    rule = ('Each run keeps a pool of up to 6 live Atoms/System objects (parent/child links recorded) and applies up to '
            '50 seeded operations: attribute and view assignment (scalar / length-1 / full broadcast, new and existing '
            'keys), prop() get and set with int, negative int, slice, list and boolean index, prop_atype (vector and '
            'single-type form), extend by count and by Atoms with a differing property set, __getitem__, __setitem__ '
            '(including a source that overlaps the destination), atoms_ix get/set, atoms_prop with scale, atoms_extend '
            '(scale, symbols, safecopy), symbols/masses/pbc setters, deepcopy, df/atoms_df; properties of dtype '
            'int/float/bool/str and trailing shapes (), (2,), (3,), (3,3), (2,2,2). Faults: refused operations (wrong '
            'first dimension, atype<1, mismatched property sets, too many masses, a_id with index, unknown key), '
            'scribbles on arrays handed out by copying accessors or passed with safecopy=True, writes through children '
            'that may alias their parent, and a property bound to a read-only array of the caller (setflags, broadcast_to, '
            'frombuffer) that is then reassigned through attribute / view / prop on a throwaway copy: accepted or refused, '
            'attribute, view and prop() must agree. Whole-property sets also go through the mapping methods of the view (update, setdefault, |=); atoms_df takes scale as flag, list or one bare name (property names include pieces of "pos"); tables returned by df()/atoms_df() are kept across later edits (they must not change) or written into (the atoms must not change). After EVERY operation every pooled object is compared cell by cell with a '
            'record-per-atom model. Writes to an existing property are generated representable in its stored dtype '
            '(in-place overwrite is documented); indexed writes of atype<1 and empty selections are not generated. '
            'Non-trivial run: a fired fault or >= 2 state-changing ops. distinct = distinct (previous op, op, dtype '
            'class, trailing rank, index kind, refused, aliased) signatures over non-trivial runs.')
    tolerances = {'int/str/bool cells': 'exact', 'float cells': '1e-9*(1+|x|) (values drawn from +-100, so any mix-up is O(1))',
                  'scaled write/read': '1e-9 relative to cell size'}
    real_components = ['atomman.core.Atoms (+PropertyDict)', 'atomman.core.System (_AtomsIndexer, atoms_prop, atoms_extend, '
                       'symbols/masses/pbc)', 'atomman.core.Box (conversions used by scale=True)', 'pandas (df)']
    stub_components = ['the caller (operation order, refused calls, scribbles)']
    assumptions = ['single caller; atomman has no threads',
                   'sharing between a slice child and its parent is undocumented: cells written through one side are accepted '
                   'as old-or-new on the other side, everything else must be exact',
                   'a refused operation (it raised) is held to "nothing happened": the model keeps the old values and the ordinary invariants '
                   'judge the object (row alignment is what the statement promises; the unchanged library validates before it writes); '
                   'an ill-formed request that is NOT refused is adopted as the new state and judged by the structural invariants only']

    # ------------------------------------------------------------------
    def config(self, ctx):
        r = ctx.rng
        reg = {}
        for nm in r.sample(NAMES, r.randint(1, 5)):
            reg[nm] = [r.choice(CLASSES), list(r.choice(TSHAPES))]
        reg['vel'] = ['float', [3]] if 'vel' in reg else reg.get('vel')
        for nm in ('p', 's', 'os'):
            if nm in reg and r.random() < 0.7:
                reg[nm] = ['float', [3]]
        reg = {k: v for k, v in reg.items() if v}
        return {'nops': r.randint(5, 50), 'reg': reg, 'fault_free': r.random() < 0.2,
                'w_fault': r.uniform(0.3, 2.0), 'w_sys': r.uniform(0.3, 2.0), 'w_struct': r.uniform(0.5, 2.0)}

    def init(self, ctx, cfg):
        am.unitconvert.reset_units(length='angstrom', mass='amu', energy='eV', charge='e')
        warnings.simplefilter('ignore')
        reg = OrderedDict((k, (v[0], tuple(v[1]))) for k, v in sorted(cfg['reg'].items()))
        return {'cfg': cfg, 'reg': reg, 'pool': [], 'uid': 0, 'prev': 'init'}

    # ------------------------------------------------------------------
    # value drawing
    def _val(self, ctx, cls, ts, name=None):
        r = ctx.rng
        if name == 'atype':
            return r.randint(1, 4)

        def one():
            if cls == 'int':
                return r.randint(-5, 9)
            if cls == 'float':
                return r.choice([round(r.uniform(-100, 100), 3), r.uniform(-100, 100)])
            if cls == 'bool':
                return r.random() < 0.5
            return r.choice(STRS)
        if ts == ():
            return one()
        n = int(np.prod(ts))
        return np.array([one() for _ in range(n)]).reshape(ts).tolist()

    def _index(self, ctx, n, unique=False):
        r = ctx.rng
        k = ctx.wchoice([('int', 2), ('neg', 2), ('slice', 2), ('list', 2), ('mask', 2)])
        if k == 'int':
            return {'k': 'int', 'i': r.randrange(n)}
        if k == 'neg':
            return {'k': 'int', 'i': -r.randint(1, n)}
        if k == 'slice':
            for _ in range(20):
                a = r.choice([None, r.randint(-n, n)])
                b = r.choice([None, r.randint(-n, n + 1)])
                s = r.choice([None, 1, 2, -1, 3])
                if list(range(n))[slice(a, b, s)]:
                    return {'k': 'slice', 'a': a, 'b': b, 's': s}
            return {'k': 'slice', 'a': None, 'b': None, 's': None}
        if k == 'list':
            m = r.randint(1, min(n, 5))
            if unique:
                l = r.sample(range(n), m)
            else:
                l = [r.randrange(n) for _ in range(m)]
            l = [i - n if r.random() < 0.3 else i for i in l]
            return {'k': 'list', 'l': l, 'lform': r.choice(['list', 'list', 'array'])}
        m = [r.random() < 0.5 for _ in range(n)]
        if not any(m):
            m[r.randrange(n)] = True
        return {'k': 'mask', 'm': m, 'mform': r.choice(['array', 'array', 'list'])}

    def _spec(self, ctx, st, n, names=None, box=None):
        """Inline description of a fresh Atoms: atype, pos and a subset of registry properties."""
        r = ctx.rng
        reg = st['reg']
        if names is None:
            names = [k for k in reg if r.random() < 0.6]
        props = {}
        for nm in sorted(names):         # canonical order: replay files are written with sorted keys
            cls, ts = reg[nm]
            props[nm] = [self._val(ctx, cls, ts) for _ in range(n)]
        return {'n': n, 'atype': [r.randint(1, 3) for _ in range(n)],
                'pos': [[round(r.uniform(-5, 15), 4) for _ in range(3)] for _ in range(n)], 'props': props,
                'layout': r.choice(['C', 'C', 'C', 'F', 'strided', 'T'])}

    # ------------------------------------------------------------------
    def gen(self, ctx, st):
        r = ctx.rng
        cfg = st['cfg']
        pool = st['pool']
        if not pool or (len(pool) < 2 and r.random() < 0.5):
            return self._gen_new(ctx, st)
        choices = [('new', 0.4), ('new_default', 0.25), ('set_whole', 2.0), ('prop_get', 1.5), ('prop_set', 2.0), ('prop_atype', 1.0),
                   ('extend', 0.8 * cfg['w_struct']), ('getitem', 1.0 * cfg['w_struct']), ('setitem', 1.0 * cfg['w_struct']),
                   ('deepcopy', 0.3), ('df', 0.3), ('sys', 2.0 * cfg['w_sys']), ('drop', 0.2), ('ro_cycle', 0.35)]
        if not cfg['fault_free']:
            choices.append(('fault', cfg['w_fault']))
        k = ctx.wchoice(choices)
        slot = r.randrange(len(pool))
        m = pool[slot]
        reg = st['reg']
        if k == 'new':
            return self._gen_new(ctx, st)
        if k == 'new_default':
            return {'op': 'new_default', 'how': r.choice(['Atoms()', 'natoms', 'natoms', 'extend_empty']), 'n': r.choice([1, 1, 2, 3])}
        if k == 'drop':
            return {'op': 'drop', 'o': slot}
        if k == 'set_whole':
            return self._gen_set_whole(ctx, st, slot)
        if k == 'prop_get':
            key = r.choice(list(m.reg) + [None])
            idx = r.choice([None, self._index(ctx, m.n)])
            return {'op': 'prop_get', 'o': slot, 'key': key, 'index': idx, 'a_id': (idx is not None and idx['k'] == 'int' and r.random() < 0.2),
                    'junk': r.randint(50, 60)}
        if k == 'prop_set':
            key = r.choice(list(m.reg))
            cls, ts = m.reg[key]
            idx = self._index(ctx, m.n, unique=True)
            rows = resolve(idx, m.n)
            form = r.choice(['one', 'each'])
            if form == 'one':
                val = self._val(ctx, cls, ts, key)
            else:
                val = [self._val(ctx, cls, ts, key) for _ in rows]
                if idx['k'] == 'int':
                    val = val[0]
            return {'op': 'prop_set', 'o': slot, 'key': key, 'index': idx, 'form': form, 'value': val,
                    'via': r.choice(['atoms', 'sys']), 'as_float': cls == 'int' and r.random() < 0.15}
        if k == 'prop_atype':
            nt = m.natypes()
            cand = [nm for nm in reg if nm not in ('pos', 'atype')]
            key = r.choice(cand) if cand else None
            if r.random() < 0.15 and nt >= 1:
                # the types themselves renumbered per type (a swap, a cycle, a merge)
                return {'op': 'prop_atype', 'o': slot, 'key': 'atype', 'form': 'vector', 'values': [r.randint(1, 4) for _ in range(nt)]}
            if key is None:
                return {'op': 'df', 'o': slot}
            cls, ts = reg[key]
            if key in m.reg:
                cls, ts = m.reg[key]
            if r.random() < 0.5:
                extra = r.choice([0, 0, 1])
                return {'op': 'prop_atype', 'o': slot, 'key': key, 'form': 'vector',
                        'values': [self._val(ctx, cls, ts) for _ in range(nt + extra)]}
            return {'op': 'prop_atype', 'o': slot, 'key': key, 'form': 'single', 'atype': r.randint(1, nt),
                    'value': self._val(ctx, cls, ts)}
        if k == 'extend':
            if r.random() < 0.35:
                return {'op': 'extend', 'o': slot, 'count': r.choice([0, 1, 2, 3])}
            if len(pool) > 1 and r.random() < 0.4:
                return {'op': 'extend', 'o': slot, 'other': r.randrange(len(pool))}
            return {'op': 'extend', 'o': slot, 'spec': self._spec(ctx, st, r.randint(1, 3))}
        if k == 'getitem':
            return {'op': 'getitem', 'o': slot, 'index': self._index(ctx, m.n), 'via': r.choice(['atoms', 'ix'])}
        if k == 'setitem':
            idx = self._index(ctx, m.n, unique=True)
            rows = resolve(idx, m.n)
            how = ctx.wchoice([('spec', 2), ('overlap', 1), ('pool', 1)])
            op = {'op': 'setitem', 'o': slot, 'index': idx, 'via': r.choice(['atoms', 'ix', 'ix_system', 'prop'])}
            if how == 'spec':
                nsrc = r.choice([1, len(rows)])
                op['spec'] = self._spec(ctx, st, nsrc, names=[nm for nm in m.reg if nm not in ('atype', 'pos')])
            elif how == 'overlap':
                # a slice of the destination itself with the same number of rows
                k2 = len(rows)
                a = r.randint(0, m.n - k2)
                op['src_slice'] = [a, a + k2]
            else:
                op['src'] = r.randrange(len(pool))
            return op
        if k == 'ro_cycle':
            cls = r.choice(['int', 'float'])
            ts = tuple(r.choice([(), (), (3,)]))
            return {'op': 'ro_cycle', 'o': slot, 'cls': cls, 'ts': list(ts), 'how': r.choice(['setflags', 'broadcast', 'frombuffer']),
                    'via1': r.choice(['attr', 'view']), 'via2': r.choice(['attr', 'view', 'prop']),
                    'v1': [self._val(ctx, cls, ts) for _ in range(m.n)], 'form2': r.choice(['full', 'len1', 'scalar'] if ts == () else ['full', 'len1']),
                    'v2': [self._val(ctx, cls, ts) for _ in range(m.n)]}
        if k == 'deepcopy':
            return {'op': 'deepcopy', 'o': slot}
        if k == 'df':
            op = {'op': 'df', 'o': slot, 'scale': r.random() < 0.3}
            vec = [nm for nm, (c2, t2) in m.reg.items() if c2 == 'float' and tuple(t2) == (3,)]
            if m.kind == 'system' and len(vec) >= 2 and r.random() < 0.5:
                op['scale_list'] = r.sample(vec, r.randint(2, len(vec)))     # several properties, in the caller's order
            elif m.kind == 'system' and vec and r.random() < 0.4:
                op['scale_str'] = r.choice(vec)          # one property, named by a bare string
            op['scribble'] = r.random() < 0.3
            op['junk'] = r.randint(60, 70)
            return op
        if k == 'sys':
            return self._gen_sys(ctx, st, slot)
        return self._gen_fault(ctx, st, slot)

    def _gen_new(self, ctx, st):
        r = ctx.rng
        n = r.choice([1, 1, 2, 3, 3, 4, 5, 7, 10])
        spec = self._spec(ctx, st, n)
        op = {'op': 'new', 'spec': spec, 'safecopy': r.random() < 0.4, 'junk': r.randint(70, 80)}
        if r.random() < 0.55:
            V = geom.draw_tri_cell(r, 1.0)
            if r.random() < 0.3:
                V = geom.snap_small(V @ geom.random_rotation(r).T)
            op['system'] = {'V': V, 'origin': geom.draw_origin(r, float(np.abs(V).max())),
                            'pbc': [r.random() < 0.7 for _ in range(3)],
                            'symbols': r.choice([None, 'Al', [r.choice(SYMS) for _ in range(r.randint(1, 4))]]),
                            'masses': r.choice([None, None, [r.choice([None, round(r.uniform(1, 200), 2)]) for _ in range(r.randint(1, 2))]]),
                            'scale': r.random() < 0.25}
        return op

    def _gen_set_whole(self, ctx, st, slot):
        r = ctx.rng
        m = st['pool'][slot]
        reg = st['reg']
        names = list(OrderedDict.fromkeys(list(m.reg) + list(reg)))
        key = r.choice(names)
        cls, ts = m.reg[key] if key in m.reg else reg[key]
        forms = ['len1', 'full', 'full']
        if ts == ():
            forms.append('scalar')
        form = r.choice(forms)
        if key in m.reg and key != 'atype' and m.n >= 2 and r.random() < 0.12:
            # the property re-ordered through a view of itself: atoms.charge = atoms.charge[::-1]
            return {'op': 'set_whole', 'o': slot, 'key': key, 'form': 'selfview', 'value': None, 'via': r.choice(['attr', 'view']),
                    'as_array': True, 'as_float': False, 'junk': 0}
        if form == 'scalar':
            val = self._val(ctx, cls, ts, key)
        elif form == 'len1':
            val = [self._val(ctx, cls, ts, key)]
        else:
            val = [self._val(ctx, cls, ts, key) for _ in range(m.n)]
        return {'op': 'set_whole', 'o': slot, 'key': key, 'form': form, 'value': val,
                'via': r.choice(['attr', 'view', 'prop', 'sys_prop', 'attr', 'view', 'prop', 'sys_prop', 'update', 'update_kw', 'ior', 'setdefault']),
                'as_array': r.random() < 0.5,
                'as_float': cls == 'int' and key != 'atype' and r.random() < 0.15, 'junk': r.randint(80, 90),
                'layout': r.choice(['C', 'C', 'C', 'F', 'strided', 'T'])}

    def _gen_sys(self, ctx, st, slot):
        r = ctx.rng
        pool = st['pool']
        syss = [i for i, m in enumerate(pool) if m.kind == 'system']
        if not syss:
            return self._gen_new(ctx, st)
        slot = r.choice(syss)
        m = pool[slot]
        k = ctx.wchoice([('symbols', 1), ('masses', 1), ('pbc', 0.7), ('scaled_get', 1.2), ('scaled_set', 1.5), ('atoms_extend', 2), ('box_set', 0.6)])
        if k == 'symbols':
            return {'op': 'symbols', 'o': slot, 'value': r.choice(['Cu', 'Cu', [r.choice(SYMS + [None]) for _ in range(r.randint(0, 5))]]),
                    'form': r.choice(['plain', 'plain', 'numpy', 'tuple'])}
        if k == 'masses':
            nt = max(m.natypes(), len(m.symbols))
            return {'op': 'masses', 'o': slot, 'value': r.choice([round(r.uniform(1, 200), 3), [r.choice([None, round(r.uniform(1, 200), 3)]) for _ in range(r.randint(0, nt))]])}
        if k == 'pbc':
            return {'op': 'pbc', 'o': slot, 'value': [r.random() < 0.5 for _ in range(3)]}
        if k == 'box_set':
            V = geom.draw_tri_cell(r, 1.0)
            return {'op': 'box_set', 'o': slot, 'V': V, 'origin': geom.draw_origin(r, float(np.abs(V).max())),
                    'via': r.choice(['box', 'system'])}
        if k == 'scaled_get':
            op = {'op': 'scaled_get', 'o': slot, 'key': r.choice(['pos', None]), 'index': r.choice([None, self._index(ctx, m.n)]),
                  'junk': r.randint(60, 70)}
            if r.random() < 0.15:
                op['index'] = {'k': 'int', 'i': r.choice([0, 0, m.n - 1])}
                op['a_id'] = True           # the older keyword for one atom
            return op
        if k == 'scaled_set':
            idx = r.choice([None, self._index(ctx, m.n, unique=True)])
            rows = resolve(idx, m.n) if idx else list(range(m.n))
            form = r.choice(['one', 'each'])
            if idx is not None and idx['k'] == 'int':
                form, rel = 'one', [round(r.uniform(-0.5, 1.5), 4) for _ in range(3)]
            elif form == 'one':
                rel = [[round(r.uniform(-0.5, 1.5), 4) for _ in range(3)]]
                if idx is not None and r.random() < 0.5:
                    rel = rel[0]
            else:
                rel = [[round(r.uniform(-0.5, 1.5), 4) for _ in range(3)] for _ in rows]
            op = {'op': 'scaled_set', 'o': slot, 'index': idx, 'form': form, 'rel': rel}
            if idx is not None and idx['k'] == 'int' and idx['i'] >= 0 and r.random() < 0.4:
                op['a_id'] = True
            elif r.random() < 0.1:
                op.update(index={'k': 'int', 'i': 0}, form='one', rel=[[round(r.uniform(-0.5, 1.5), 4) for _ in range(3)]], a_id=True)
            return op
        op = {'op': 'atoms_extend', 'o': slot, 'scale': False, 'symbols': r.choice([None, None, [r.choice(SYMS) for _ in range(r.randint(1, 4))]]),
              'safecopy': r.random() < 0.4, 'junk': r.randint(90, 99)}
        if r.random() < 0.25:
            op['count'] = r.choice([0, 1, 2])
        else:
            nv = r.choice([1, 1, 2, 3, m.n])
            op['spec'] = self._spec(ctx, st, nv)
            if r.random() < 0.5:
                op['scale'] = True
                op['spec']['pos'] = [[round(r.uniform(-0.2, 1.2), 4) for _ in range(3)] for _ in range(nv)]
                if r.random() < 0.3:
                    # box-relative lattice sites written as whole numbers: the operand's pos array is integer typed
                    op['spec']['pos'] = [[r.randint(0, 2) for _ in range(3)] for _ in range(nv)]
                    op['spec']['int_pos'] = True
        return op

    def _gen_fault(self, ctx, st, slot):
        r = ctx.rng
        m = st['pool'][slot]
        what = r.choice(['wrong_first_dim', 'atype_lt1', 'setitem_mismatch', 'too_many_masses', 'a_id_and_index',
                         'unknown_key', 'value_without_key', 'prop_atype_bad', 'setitem_nonatoms', 'extend_bad',
                         'setitem_mismatch', 'prop_atype_bad', 'system_ctor_refused', 'new_key_wrong_len', 'entry_shaped_value', 'scaled_get_nonvector'])
        op = {'op': 'refuse', 'o': slot, 'what': what}
        if what == 'wrong_first_dim':
            key = r.choice(list(m.reg))
            cls, ts = m.reg[key]
            bad = m.n + r.choice([1, 2]) if m.n > 0 else 2
            if bad == 1:
                bad = 2
            op.update(key=key, value=[self._val(ctx, cls, ts, key) for _ in range(bad)], via=r.choice(['attr', 'view', 'prop']))
        elif what == 'atype_lt1':
            v = [r.randint(1, 3) for _ in range(m.n)]
            v[r.randrange(m.n)] = r.choice([0, -1])
            # the same refusal is owed to every way of writing the whole property: full vector, one-element list,
            # bare Python int, numpy scalar, 0-d array, list form
            op.update(value=v, via=r.choice(['attr', 'view', 'prop', 'sys_prop']),
                      form=r.choice(['full', 'full', 'len1', 'pyint', 'npint', '0d', 'list']), bad=r.choice([0, -1, -2]),
                      # ... and to every integer-like dtype a caller's array may have: an unsigned or boolean array cannot hold a
                      # negative type but it can hold 0 (atype - np.uint64(1) of a default-built Atoms stays unsigned)
                      dt=r.choice(['int64', 'int64', 'uint8', 'uint32', 'uint64', 'bool', 'int8', 'int32', 'float64', 'float32']))
        elif what == 'setitem_mismatch':
            names = [nm for nm in st['reg'] if nm not in m.reg]
            extra = names[:1] if names else []
            drop = [] if extra else [nm for nm in m.reg if nm not in ('atype', 'pos')][:1]
            keep = [nm for nm in m.reg if nm not in ('atype', 'pos') and nm not in drop] + extra
            own = [nm for nm in m.reg if nm not in ('atype', 'pos')]
            if names and own and r.random() < 0.6:
                # as many properties as the target has, one of them under another name
                keep = own[1:] + names[:1]
                extra = names[:1]
            if not extra and not drop:
                op['what'] = 'a_id_and_index'
            else:
                rows = 2 if (m.n >= 2 and r.random() < 0.6) else 1
                op.update(spec=self._spec(ctx, st, rows, names=keep), index={'k': 'int', 'i': 0},
                          how=r.choice(['slice', 'list'] if rows == 2 else ['int', 'negint', 'slice', 'list']), via=r.choice(['atoms', 'prop', 'ix']))
        elif what == 'new_key_wrong_len':
            names = [nm for nm in st['reg'] if nm not in m.reg]
            if not names or m.n < 2:
                op['what'] = 'a_id_and_index'
            else:
                key = names[0]
                cls, ts = st['reg'][key]
                op.update(key=key, bad=[self._val(ctx, cls, ts, key) for _ in range(m.n + 1)], good=[self._val(ctx, cls, ts, key) for _ in range(m.n)],
                          via=r.choice(['attr', 'attr', 'view', 'prop']))
        elif what == 'entry_shaped_value':
            keys = [nm for nm, (c2, t2) in m.reg.items() if len(t2) >= 1 and nm != 'atype']
            if not keys:
                op['what'] = 'a_id_and_index'
            else:
                key = r.choice(keys)
                cls, ts = m.reg[key]
                op.update(key=key, value=self._val(ctx, cls, ts, key), via=r.choice(['attr', 'view', 'prop', 'sys_prop']))
        elif what == 'scaled_get_nonvector':
            keys = [nm for nm, (c2, t2) in m.reg.items() if tuple(t2) != (3,) and c2 == 'float']
            if not keys:
                op['what'] = 'a_id_and_index'
            else:
                op.update(key=r.choice(keys), junk=r.randint(50, 60))
        elif what == 'prop_atype_bad':
            names = [nm for nm in st['reg'] if nm not in m.reg]
            op.update(atype=m.natypes() + r.randint(1, 3), key=(names[0] if (names and r.random() < 0.6) else 'pos'))
        elif what == 'system_ctor_refused':
            V = geom.draw_tri_cell(r, 1.0) * 3.0
            op.update(V=V, origin=geom.draw_origin(r, float(np.abs(V).max())), scale=r.random() < 0.7, bad=r.choice(['masses', 'symbols_masses']))
        return op

    # ------------------------------------------------------------------
    # helpers on the model
    def _new_obj(self, st, kind):
        st['uid'] += 1
        return MObj(st['uid'], kind)

    def _add(self, st, m):
        pool = st['pool']
        pool.append(m)
        while len(pool) > POOL_MAX:
            self._drop(st, 0)

    def _drop(self, st, slot):
        gone = st['pool'].pop(slot)
        for m in st['pool']:
            m.links.pop(gone.uid, None)

    def _link(self, st, child, parent, rowmap):
        """child row -> parent row may share memory; transitive over the parent's own links."""
        by_uid = {m.uid: m for m in st['pool']}
        child.links[parent.uid] = dict(rowmap)
        parent.links.setdefault(child.uid, {}).update({v: k for k, v in rowmap.items()})
        for ouid, pmap in list(parent.links.items()):
            if ouid == child.uid or ouid not in by_uid:
                continue
            cm = {cr: pmap[pr] for cr, pr in rowmap.items() if pr in pmap}
            if cm:
                child.links.setdefault(ouid, {}).update(cm)
                by_uid[ouid].links.setdefault(child.uid, {}).update({v: k for k, v in cm.items()})

    def _write(self, st, m, name, row, value):
        """Model write of one cell; propagates 'maybe' candidates along alias links."""
        m.rows[row][name] = value
        m.cands.pop((name, row), None)
        if m.links:
            by_uid = {x.uid: x for x in st['pool']}
            for ouid, rm in m.links.items():
                o = by_uid.get(ouid)
                if o is not None and row in rm and name in o.reg and rm[row] < o.n:
                    o.cands.setdefault((name, rm[row]), []).append(value)

    def _conv(self, cls, v):
        """Value as it is stored in a property of class cls (in-place overwrite keeps the dtype)."""
        if cls == 'int':
            return np.asarray(v).astype('int64').tolist() if np.ndim(v) else int(v)
        if cls == 'float':
            return np.asarray(v, dtype=float).tolist() if np.ndim(v) else float(v)
        if cls == 'bool':
            return np.asarray(v).astype(bool).tolist() if np.ndim(v) else bool(v)
        return v

    def _cell(self, cls, ts, v):
        v = self._conv(cls, v)
        return v if ts == () else np.array(v).reshape(ts)

    def _build_atoms(self, ctx, spec, safecopy=False, clause='C06.X'):
        arrs = OrderedDict()
        lay = spec.get('layout', 'C')
        for nm, vals in spec['props'].items():
            arrs[nm] = geom.with_layout(np.array(vals), lay)
        atype = geom.with_layout(np.array(spec['atype'], dtype=int), lay)
        pos = geom.with_layout(np.array(spec['pos'], dtype=(int if spec.get('int_pos') else float)), lay)
        if spec.get('int_pos'):
            ctx.probe('integer_typed_positions')
        if lay != 'C' and not pos.flags['C_CONTIGUOUS']:
            ctx.probe('noncontiguous_input')
        a = ctx.must(clause, am.Atoms, atype=atype, pos=pos, safecopy=safecopy, klass='Atoms()', **arrs)
        return a, atype, pos, arrs

    def _model_from_spec(self, st, m, spec):
        m.reg['atype'] = ('int', ())
        m.reg['pos'] = ('float', (3,))
        for nm in spec['props']:
            m.reg[nm] = st['reg'][nm]
        for i in range(spec['n']):
            row = {'atype': int(spec['atype'][i]), 'pos': np.array(spec['pos'][i], dtype=float)}
            for nm, vals in spec['props'].items():
                cls, ts = m.reg[nm]
                row[nm] = self._cell(cls, ts, vals[i])
            m.rows.append(row)

    def _spec_ok(self, st, spec):
        return all(nm in st['reg'] for nm in spec['props'])

    # ------------------------------------------------------------------
    def apply(self, ctx, st, op):
        k = op['op']
        pool = st['pool']
        if 'o' in op and not (0 <= op['o'] < len(pool)):
            ctx.ev('skip', k)
            return
        fn = getattr(self, '_ap_' + k)
        info = fn(ctx, st, op) or {}
        if info.get('skip'):
            ctx.ev('skip', k)
            return
        ctx.op(k)
        if info.get('changed', False):
            ctx.changes += 1
        self._invariants(ctx, st, k)
        ctx.sig(st['prev'], k, info.get('cls', ''), info.get('rank', ''), info.get('ik', ''), bool(info.get('refused')),
                bool(info.get('aliased')), info.get('via', ''))
        st['prev'] = k

    # -- creation
    def _ap_new(self, ctx, st, op):
        spec = op['spec']
        if not self._spec_ok(st, spec):
            return {'skip': 1}
        sysd = op.get('system')
        sc = bool(op['safecopy'])
        a, atype, pos, arrs = self._build_atoms(ctx, spec, safecopy=sc and not sysd)
        m = self._new_obj(st, 'system' if sysd else 'atoms')
        self._model_from_spec(st, m, spec)
        if sysd:
            V = np.array(sysd['V'], dtype=float)
            o = np.array(sysd['origin'], dtype=float)
            box = ctx.must('C06.X', am.Box, vects=V, origin=o, klass='Box()')
            kw = {}
            if sysd['symbols'] is not None:
                kw['symbols'] = sysd['symbols']
            if sysd['masses'] is not None:
                kw['masses'] = list(sysd['masses'])
            nt = m.natypes()
            nsym = len(sysd['symbols']) if isinstance(sysd['symbols'], list) else (1 if sysd['symbols'] else 0)
            if sysd['masses'] is not None and len(sysd['masses']) > max(nt, nsym):
                kw.pop('masses')
                sysd = dict(sysd, masses=None)
            pbc = [bool(x) for x in sysd['pbc']]
            s = ctx.must('C06.X', am.System, atoms=a, box=box, pbc=pbc, scale=bool(sysd['scale']), safecopy=sc,
                         klass='System()', **kw)
            if sysd['scale']:
                for row in m.rows:
                    row['pos'] = geom.rel_to_cart(V, o, row['pos'])
                ctx.probe('scaled_write')
            m.real = s
            m.V, m.o, m.pbc = V, o, pbc
            m.box_group = m.uid
            sy = sysd['symbols']
            m.symbols = [] if sy is None else ([sy] if isinstance(sy, str) else list(sy))
            if sy is None and sysd['masses'] is not None:
                m.symbols = [None] * len(sysd['masses'])
            m.masses = [] if sysd['masses'] is None else list(sysd['masses'])
            if sc:
                # the caller's Atoms, Box and arrays must now be disconnected from the System
                a.view['pos'][...] = op['junk']
                a.view['atype'][...] = 9
                box.vects = np.eye(3) * op['junk']
                ctx.fault('scribble_safecopy')
                ctx.probe('scribble_safecopy')
        else:
            m.real = a
            if sc:
                pos[...] = op['junk']
                atype[...] = 9
                for arr in arrs.values():
                    if arr.dtype.kind in 'iuf':
                        arr[...] = op['junk']
                ctx.fault('scribble_safecopy')
                ctx.probe('scribble_safecopy')
        self._add(st, m)
        ctx.ev('op', 'new', {'n': m.n, 'kind': m.kind, 'props': list(m.reg), 'safecopy': sc})
        return {'changed': True, 'via': m.kind}

    def _ap_new_default(self, ctx, st, op):
        """Objects built from the library's documented defaults: one entry per atom, atype 1, position (0,0,0)."""
        how, n = op['how'], int(op['n'])
        if how == 'Atoms()':
            n = 1
            a = ctx.must('C06.X', am.Atoms, klass='Atoms()/default')
        elif how == 'natoms':
            a = ctx.must('C06.X', am.Atoms, natoms=n, klass='Atoms(natoms)/default')
        else:
            base = ctx.must('C06.X', am.Atoms, klass='Atoms()/default')
            a = ctx.must('C06.A6', base.extend, n, klass='extend/count')
            n = n + 1
        m = self._new_obj(st, 'atoms')
        m.reg['atype'] = ('int', ())
        m.reg['pos'] = ('float', (3,))
        for _ in range(n):
            m.rows.append({'atype': 1, 'pos': np.zeros(3)})
        m.real = a
        self._add(st, m)
        ctx.probe('default_constructed_object')
        ctx.ev('op', 'new_default', {'how': how, 'n': n})
        return {'changed': True, 'via': how}

    def _ap_drop(self, ctx, st, op):
        self._drop(st, op['o'])
        ctx.ev('op', 'drop', {'o': op['o']})
        return {}

    def _ap_deepcopy(self, ctx, st, op):
        src = st['pool'][op['o']]
        m = self._new_obj(st, src.kind)
        m.real = ctx.must('C06.A6', copy.deepcopy, src.real, klass='deepcopy')
        m.reg = OrderedDict(src.reg)
        m.rows = [{k: (v.copy() if isinstance(v, np.ndarray) else v) for k, v in r.items()} for r in src.rows]
        m.cands = {k: list(v) for k, v in src.cands.items()}
        if src.kind == 'system':
            m.V, m.o, m.pbc = src.V.copy(), src.o.copy(), list(src.pbc)
            m.symbols, m.masses = list(src.symbols), list(src.masses)
            m.box_group = m.uid
            m.box_cands = [(v.copy(), o.copy()) for v, o in src.box_cands]
        self._add(st, m)
        ctx.ev('op', 'deepcopy', {'o': op['o']})
        return {'changed': True, 'via': src.kind}

    # -- a property bound to a READ-ONLY array of the caller, then reassigned (on a throwaway copy of the object)
    def _ap_ro_cycle(self, ctx, st, op):
        m = st['pool'][op['o']]
        if m.n == 0 or len(op['v1']) != m.n or len(op['v2']) != m.n:
            return {'skip': 1}
        key = 'ro_tmp'
        cls, ts = op['cls'], tuple(op['ts'])
        dt = int if cls == 'int' else float
        tmp = ctx.must('C06.A6', copy.deepcopy, m.atoms, klass='deepcopy')
        a1 = np.array(op['v1'], dtype=dt).reshape((m.n,) + ts)
        if op['how'] == 'broadcast':
            a1 = np.broadcast_to(a1[:1], (m.n,) + ts)           # read-only, zero stride: every atom shows row 0
        elif op['how'] == 'frombuffer':
            a1 = np.frombuffer(a1.tobytes(), dtype=a1.dtype).reshape((m.n,) + ts)   # read-only view of a bytes object
        else:
            a1.setflags(write=False)
        want1 = np.array(a1)
        if op['via1'] == 'attr':
            ctx.must('C06.X', setattr, tmp, key, a1, klass='ro/bind/attr')
        else:
            ctx.must('C06.X', tmp.view.__setitem__, key, a1, klass='ro/bind/view')
        v2 = np.array(op['v2'], dtype=dt).reshape((m.n,) + ts)
        if op['form2'] == 'len1':
            given, want2 = v2[:1].copy(), np.array(np.broadcast_to(v2[:1], (m.n,) + ts))
        elif op['form2'] == 'scalar':
            given, want2 = v2[0].item(), np.array(np.broadcast_to(v2[0], (m.n,) + ts))
        else:
            given, want2 = v2.copy(), v2
        if op['via2'] == 'attr':
            ok, res = ctx.sut(setattr, tmp, key, given)
        elif op['via2'] == 'view':
            ok, res = ctx.sut(tmp.view.__setitem__, key, given)
        else:
            ok, res = ctx.sut(tmp.prop, key=key, value=given)
        ctx.fault('readonly_array_bound')
        ctx.probe('readonly_reassign_' + ('accepted' if ok else 'refused'))
        # whatever the library did with the reassignment, every accessor must tell the same story: all old or all new
        arr = tmp.view[key]
        attr = getattr(tmp, key, None)
        if attr is not arr:
            raise Violation('C06.A2', {'what': 'attribute and view entry are different arrays after reassigning a property that was '
                                               'bound to a read-only array', 'how': op['how'], 'via2': op['via2'], 'accepted': ok},
                            klass='attr-view/ro_cycle')
        got = np.asarray(ctx.must('C06.A3', tmp.prop, key, klass='ro/prop-get'))
        want = want2 if ok else want1
        if arr.shape != want.shape or not np.array_equal(arr, want) or not np.array_equal(got, want):
            raise Violation('C06.A3', {'what': 'values after reassigning a read-only-bound property', 'accepted': ok, 'got': np.asarray(arr),
                                       'want': want, 'how': op['how'], 'via2': op['via2']}, klass='value/ro_cycle/extra')
        if tmp.natoms != m.n or list(tmp.view.keys()) != list(m.reg) + [key]:
            raise Violation('C06.A1', {'what': 'structure after read-only cycle', 'keys': list(tmp.view.keys())}, klass='shape/ro_cycle')
        ctx.ev('op', 'ro_cycle', {'o': op['o'], 'how': op['how'], 'via1': op['via1'], 'via2': op['via2'], 'form2': op['form2']},
               {'accepted': ok})
        return {'cls': cls, 'rank': len(ts), 'ik': op['how'], 'refused': not ok, 'via': op['via2']}

    # -- whole-property assignment
    def _ap_set_whole(self, ctx, st, op):
        m = st['pool'][op['o']]
        key = op['key']
        if key not in st['reg'] and key not in m.reg:
            return {'skip': 1}
        cls, ts = m.reg[key] if key in m.reg else st['reg'][key]
        form, val = op['form'], op['value']
        if form == 'selfview':
            if key not in m.reg or m.n < 2:
                return {'skip': 1}
            old = [m.rows[i][key] for i in range(m.n)]
            given = m.atoms.view[key][::-1]
            via = op['via']
            if via == 'attr':
                ctx.must('C06.X', setattr, m.atoms, key, given, klass='set/attr/selfview/existing')
            else:
                ctx.must('C06.X', m.atoms.view.__setitem__, key, given, klass='set/view/selfview/existing')
            for i in range(m.n):
                v = old[m.n - 1 - i]
                self._write(st, m, key, i, v.copy() if isinstance(v, np.ndarray) else v)
            ctx.probe('assigned_a_view_of_itself')
            ctx.ev('op', 'set_whole', {'o': op['o'], 'key': key, 'form': form, 'via': via})
            return {'changed': True, 'cls': cls, 'rank': len(ts), 'ik': form, 'via': via, 'aliased': bool(m.links)}
        if form == 'full' and len(val) != m.n:
            return {'skip': 1}
        new_key = key not in m.reg
        if key == 'atype':
            flat = np.asarray(val).reshape(-1)
            if flat.min() < 1:
                return {'skip': 1}
        arr = np.array(val)
        if op.get('as_float') and cls == 'int':
            arr = arr.astype(float)
        if op['as_array'] and op.get('layout', 'C') != 'C':
            arr = geom.with_layout(arr, op['layout'])
        given = arr if op['as_array'] else (arr.tolist() if arr.ndim else arr.item())
        atoms = m.atoms
        via = op['via']
        if via == 'sys_prop' and m.kind != 'system':
            via = 'prop'
        klass = 'set/%s/%s/%s' % (via, form, 'new' if new_key else 'existing')
        if via == 'attr':
            ctx.must('C06.X', setattr, atoms, key, given, klass=klass)
        elif via == 'view':
            ctx.must('C06.X', atoms.view.__setitem__, key, given, klass=klass)
        elif via in ('update', 'update_kw', 'ior', 'setdefault'):
            # the view is a mapping: its bulk setters are assignments like any other
            ctx.probe('view_set_through_mapping_method')
            if via == 'setdefault' and new_key:
                ctx.must('C06.X', atoms.view.setdefault, key, given, klass=klass)
            elif via == 'update_kw' and key.isidentifier():
                ctx.must('C06.X', atoms.view.update, klass=klass, **{key: given})
            elif via == 'ior':
                ctx.must('C06.X', atoms.view.__ior__, {key: given}, klass=klass)
            else:
                ctx.must('C06.X', atoms.view.update, {key: given}, klass=klass)
        elif via == 'prop':
            ctx.must('C06.X', atoms.prop, key=key, value=given, klass=klass)
        else:
            ctx.must('C06.X', m.real.atoms_prop, key=key, value=given, klass=klass)
        if new_key:
            store_cls = kind_of(arr)
            m.reg[key] = (store_cls, ts)
            for row in m.rows:
                row[key] = zero_of(store_cls, ts)
            cls = store_cls
        elif kind_of(arr) != cls:
            ctx.probe('inplace_overwrite_other_dtype')
        old_nt = m.natypes()
        for i in range(m.n):
            v = val if form == 'scalar' else (val[0] if form == 'len1' else val[i])
            self._write(st, m, key, i, self._cell(cls, ts, v))
        if key == 'atype' and m.natypes() > old_nt:
            ctx.probe('natypes_grew')
        # prop(value=) and atoms_prop(value=) copy; the caller may now scribble on what it passed
        if via in ('prop', 'sys_prop') and op['as_array'] and arr.dtype.kind in 'iuf' and arr.ndim:
            given[...] = op['junk']
            ctx.fault('scribble_passed_to_prop')
        ctx.ev('op', 'set_whole', {'o': op['o'], 'key': key, 'form': form, 'via': via, 'value': arr})
        return {'changed': True, 'cls': cls, 'rank': len(ts), 'ik': form, 'via': via, 'aliased': bool(m.links)}

    # -- prop get (copying accessor) + scribble
    def _ap_prop_get(self, ctx, st, op):
        m = st['pool'][op['o']]
        key, idx = op['key'], op['index']
        if key is not None and key not in m.reg:
            return {'skip': 1}
        rows = list(range(m.n)) if idx is None else resolve(idx, m.n)
        if rows is None:
            return {'skip': 1}
        atoms = m.atoms
        kw = {}
        if idx is not None:
            kw['a_id' if op.get('a_id') and idx['k'] == 'int' else 'index'] = real_index(idx)
        ik = 'none' if idx is None else idx['k'] + ('-' if idx.get('i', 0) < 0 else '')
        if idx is not None and idx['k'] == 'int' and idx['i'] < 0:
            ctx.probe('negative_index')
        if idx is not None and idx['k'] == 'mask':
            ctx.probe('mask_index')
        if key is None and idx is None:
            got = ctx.must('C06.A3', atoms.prop, klass='prop()')
            if list(got) != list(m.reg):
                raise Violation('C06.A3', {'what': 'prop() key list', 'got': list(got), 'want': list(m.reg)}, klass='keys')
            ctx.ev('op', 'prop_get', {'o': op['o']}, {'keys': list(got)})
            return {'ik': 'keys'}
        if key is None:
            sub = ctx.must('C06.A3', atoms.prop, klass='prop(index)', **kw)
            if not isinstance(sub, am.Atoms) or sub.natoms != len(rows):
                raise Violation('C06.A3', {'what': 'prop(index=) did not return Atoms of the selection', 'natoms': getattr(sub, 'natoms', None),
                                           'want': len(rows)}, klass='prop(index)/count')
            for nm, (cls, ts) in m.reg.items():
                got = sub.view[nm]
                for j, rrow in enumerate(rows):
                    if not self._cell_ok(m, nm, rrow, got[j], cls):
                        raise Violation('C06.A3', {'what': 'prop(index=) value', 'key': nm, 'row': rrow, 'got': got[j],
                                                   'want': m.rows[rrow][nm]}, klass='prop(index)/value')
                if np.shares_memory(got, atoms.view[nm]):
                    raise Violation('C06.A7', {'what': 'prop(index=) result shares memory with storage', 'key': nm}, klass='prop(index)/alias')
                if got.dtype.kind in 'iuf' and nm != 'atype':
                    got[...] = op['junk']
            ctx.fault('scribble_result')
            ctx.probe('scribble_result')
            ctx.ev('op', 'prop_get', {'o': op['o'], 'index': idx})
            return {'ik': ik}
        cls, ts = m.reg[key]
        got = ctx.must('C06.A3', atoms.prop, key, klass='prop(key)', **kw)
        got = np.asarray(got)
        squeeze = idx is not None and idx['k'] == 'int'
        want_shape = tuple(ts) if squeeze else (len(rows),) + tuple(ts)
        if got.shape != want_shape:
            raise Violation('C06.A1', {'what': 'prop(key,index) shape', 'got': list(got.shape), 'want': list(want_shape), 'key': key},
                            klass='prop(key)/shape')
        view = got.reshape((1,) + tuple(ts)) if squeeze else got
        for j, rrow in enumerate(rows):
            if not self._cell_ok(m, key, rrow, view[j], cls):
                raise Violation('C06.A3', {'what': 'prop(key,index) value', 'key': key, 'row': rrow, 'got': view[j],
                                           'want': m.rows[rrow][key], 'index': idx}, klass='prop(key)/value/' + idx_kind(idx))
        if got.ndim and np.shares_memory(got, atoms.view[key]):
            raise Violation('C06.A7', {'what': 'prop(key) result shares memory with storage', 'key': key}, klass='prop(key)/alias')
        if got.ndim and got.dtype.kind in 'iuf':
            got[...] = op['junk']
            ctx.fault('scribble_result')
            ctx.probe('scribble_result')
        ctx.ev('op', 'prop_get', {'o': op['o'], 'key': key, 'index': idx})
        return {'cls': cls, 'rank': len(ts), 'ik': ik}

    def _cell_ok(self, m, name, row, got, cls):
        if veq(got, m.rows[row][name], cls):
            return True
        for c in m.cands.get((name, row), []):
            if veq(got, c, cls):
                return True
        return False

    # -- indexed property write
    def _ap_prop_set(self, ctx, st, op):
        m = st['pool'][op['o']]
        key, idx = op['key'], op['index']
        if key not in m.reg:
            return {'skip': 1}
        rows = resolve(idx, m.n)
        if rows is None or len(set(rows)) != len(rows):
            return {'skip': 1}
        cls, ts = m.reg[key]
        val = op['value']
        if op['form'] == 'each' and idx['k'] != 'int' and len(val) != len(rows):
            return {'skip': 1}
        if key == 'atype' and np.min(val) < 1:
            return {'skip': 1}
        arr = np.array(val)
        if op.get('as_float') and cls == 'int':
            arr = arr.astype(float)
        via = op['via'] if m.kind == 'system' else 'atoms'
        klass = 'prop_set/%s/%s' % (idx['k'], op['form'])
        if idx['k'] == 'int' and idx['i'] < 0:
            ctx.probe('negative_index')
        if idx['k'] == 'mask':
            ctx.probe('mask_index')
        old_nt = m.natypes()
        if via == 'sys':
            ctx.must('C06.X', m.real.atoms_prop, key=key, index=real_index(idx), value=arr, klass=klass)
        else:
            ctx.must('C06.X', m.atoms.prop, key=key, index=real_index(idx), value=arr, klass=klass)
        for j, rrow in enumerate(rows):
            v = val if (op['form'] == 'one' or idx['k'] == 'int') else val[j]
            self._write(st, m, key, rrow, self._cell(cls, ts, v))
        if key == 'atype' and m.natypes() > old_nt:
            ctx.probe('natypes_grew')
        ctx.ev('op', 'prop_set', {'o': op['o'], 'key': key, 'index': idx, 'value': arr})
        return {'changed': True, 'cls': cls, 'rank': len(ts), 'ik': idx['k'], 'via': via, 'aliased': bool(m.links)}

    def _ap_prop_atype(self, ctx, st, op):
        m = st['pool'][op['o']]
        key = op['key']
        if key not in st['reg'] and key not in m.reg:
            return {'skip': 1}
        cls, ts = m.reg[key] if key in m.reg else st['reg'][key]
        nt = m.natypes()
        new_key = key not in m.reg
        if op['form'] == 'vector':
            vals = op['values']
            if len(vals) < nt:
                return {'skip': 1}
            arr = np.array(vals)
            if key == 'atype':
                if any((not isinstance(v, int)) or v < 1 for v in vals):
                    return {'skip': 1}
                ctx.probe('types_renumbered_through_prop_atype')
            ctx.must('C06.X', m.atoms.prop_atype, key, arr, klass='prop_atype/vector/' + ('new' if new_key else 'existing'))
            if new_key:
                cls = kind_of(arr)
                m.reg[key] = (cls, ts)
                for row in m.rows:
                    row[key] = zero_of(cls, ts)
            for i in range(m.n):
                self._write(st, m, key, i, self._cell(cls, ts, vals[int(m.rows[i]['atype']) - 1]))
        else:
            t = op['atype']
            if not 1 <= t <= nt:
                return {'skip': 1}
            val = op['value']
            arr = np.array(val) if ts != () else val
            klass = 'prop_atype/single/%s/rank%d' % ('new' if new_key else 'existing', len(ts))
            if new_key:
                ctx.probe('prop_atype_single_new_key')
                ok, res = ctx.sut(m.atoms.prop_atype, key, arr, atype=t)
                if not ok:
                    # refused: nothing may have changed except (not atomic) creation of the zero-filled key
                    ctx.fault('refused')
                    ctx.ev('op', 'prop_atype', {'o': op['o'], 'key': key, 'atype': t}, {'raised': type(res).__name__})
                    if key in m.atoms.view:
                        self._resync_prop(m, key)
                    return {'refused': True, 'cls': cls, 'rank': len(ts)}
                cls = kind_of(np.array(val))
                m.reg[key] = (cls, ts)
                for row in m.rows:
                    row[key] = zero_of(cls, ts)
            else:
                ctx.must('C06.X', m.atoms.prop_atype, key, arr, atype=t, klass=klass)
            for i in range(m.n):
                if int(m.rows[i]['atype']) == t:
                    self._write(st, m, key, i, self._cell(cls, ts, val))
        ctx.ev('op', 'prop_atype', {'o': op['o'], 'key': key, 'form': op['form']})
        return {'changed': True, 'cls': cls, 'rank': len(ts), 'ik': op['form'], 'via': 'new' if new_key else 'existing'}

    # -- structure
    def _operand(self, ctx, st, op):
        """Atoms operand from a pool slot or an inline spec.  Returns (real Atoms, model rows, reg, pool model or None)."""
        if 'other' in op or 'src' in op:
            slot = op.get('other', op.get('src'))
            if not 0 <= slot < len(st['pool']):
                return None
            o = st['pool'][slot]
            return o.atoms, o.rows, o.reg, o
        spec = op['spec']
        if not self._spec_ok(st, spec):
            return None
        a, _, _, _ = self._build_atoms(ctx, spec)
        tmp = MObj(-1, 'atoms')
        self._model_from_spec(st, tmp, spec)
        return a, tmp.rows, tmp.reg, None

    def _extended_model(self, st, m, kind, src, orows, oreg, count):
        """Model of src extended by operand rows (or `count` default atoms)."""
        for nm, (cls, ts) in src.reg.items():
            m.reg[nm] = (cls, ts)
        if oreg is not None:
            for nm, (cls, ts) in oreg.items():
                if nm not in m.reg:
                    m.reg[nm] = (cls, ts)
        for r in src.rows:
            row = {k: (v.copy() if isinstance(v, np.ndarray) else v) for k, v in r.items()}
            for nm, (cls, ts) in m.reg.items():
                if nm not in row:
                    row[nm] = zero_of(cls, ts)
            m.rows.append(row)
        for j in range(count):
            row = {}
            for nm, (cls, ts) in m.reg.items():
                if orows is not None and nm in oreg:
                    v = orows[j][nm]
                    v = self._cell(cls, ts, v.tolist() if isinstance(v, np.ndarray) else v)
                    row[nm] = v
                elif orows is None and nm == 'atype':
                    row[nm] = 1
                else:
                    row[nm] = zero_of(cls, ts)
            m.rows.append(row)

    def _ap_extend(self, ctx, st, op):
        src = st['pool'][op['o']]
        if 'count' in op:
            orows = oreg = None
            count = op['count']
            res = ctx.must('C06.A6', src.atoms.extend, count, klass='extend/count')
        else:
            got = self._operand(ctx, st, op)
            if got is None:
                return {'skip': 1}
            oa, orows, oreg, om = got
            # dtype classes of shared names must be compatible (values representable)
            for nm in oreg:
                if nm in src.reg and not compatible(src.reg[nm], oreg[nm]):
                    return {'skip': 1}
            count = len(orows)
            res = ctx.must('C06.A6', src.atoms.extend, oa, klass='extend/atoms')
            if set(oreg) - set(src.reg) and set(src.reg) - set(oreg):
                ctx.probe('extend_new_props_both_sides')
        m = self._new_obj(st, 'atoms')
        m.real = res
        self._extended_model(st, m, 'atoms', src, orows, oreg, count)
        self._add(st, m)
        ctx.ev('op', 'extend', {'o': op['o'], 'count': count})
        return {'changed': True, 'ik': 'count' if orows is None else 'atoms'}

    def _ap_getitem(self, ctx, st, op):
        src = st['pool'][op['o']]
        idx = op['index']
        rows = resolve(idx, src.n)
        if rows is None:
            return {'skip': 1}
        via = op['via'] if src.kind == 'system' else 'atoms'
        if idx['k'] == 'int' and idx['i'] < 0:
            ctx.probe('negative_index')
        if idx['k'] == 'mask':
            ctx.probe('mask_index')
        if via == 'ix':
            res = ctx.must('C06.X', src.real.atoms_ix.__getitem__, real_index(idx), klass='atoms_ix[]/' + idx['k'])
            m = self._new_obj(st, 'system')
            m.V, m.o, m.pbc = src.V, src.o, list(src.pbc)
            nt_src = src.natypes()
            m.symbols = list(src.symbols) + [None] * max(0, nt_src - len(src.symbols))
            m.masses = []
            m.box_shared = True
            m.box_group = src.box_group
            m.box_cands = list(src.box_cands)
        else:
            res = ctx.must('C06.X', src.atoms.__getitem__, real_index(idx), klass='atoms[]/' + idx['k'])
            m = self._new_obj(st, 'atoms')
        m.real = res
        m.reg = OrderedDict(src.reg)
        for rrow in rows:
            m.rows.append({k: (v.copy() if isinstance(v, np.ndarray) else v) for k, v in src.rows[rrow].items()})
            j = len(m.rows) - 1
            for nm in m.reg:
                if (nm, rrow) in src.cands:
                    m.cands[(nm, j)] = list(src.cands[(nm, rrow)])
        aliased = idx['k'] in ('int', 'slice')
        if aliased:
            # link before the pool may evict the parent: its other relatives stay reachable
            self._link(st, m, src, {j: rrow for j, rrow in enumerate(rows)})
        self._add(st, m)
        ctx.ev('op', 'getitem', {'o': op['o'], 'index': idx, 'via': via})
        return {'changed': True, 'ik': idx['k'], 'via': via, 'aliased': aliased}

    def _ap_setitem(self, ctx, st, op):
        dst = st['pool'][op['o']]
        idx = op['index']
        rows = resolve(idx, dst.n)
        if rows is None or len(set(rows)) != len(rows):
            return {'skip': 1}
        via = op['via']
        if dst.kind != 'system' and via in ('ix', 'ix_system'):
            via = 'atoms'
        overlap = 'src_slice' in op
        if overlap:
            a, b = op['src_slice']
            if not (0 <= a < b <= dst.n) or b - a != len(rows):
                return {'skip': 1}
            src_real = ctx.must('C06.X', dst.atoms.__getitem__, slice(a, b), klass='atoms[]/slice')
            srows = [dict(r) for r in dst.rows[a:b]]
            sreg = dst.reg
            ctx.probe('setitem_overlap')
            if via == 'ix_system':
                via = 'ix'
        else:
            got = self._operand(ctx, st, op)
            if got is None:
                return {'skip': 1}
            src_real, srows, sreg, om = got
            if om is dst:
                return {'skip': 1}
            if set(sreg) != set(dst.reg) or len(srows) not in (1, len(rows)):
                return {'skip': 1}
            if any(not compatible(dst.reg[nm], sreg[nm]) for nm in sreg):
                return {'skip': 1}
            srows = [dict(r) for r in srows]
            if via == 'ix_system':
                if om is not None and om.kind == 'system':
                    src_real = om.real
                else:
                    via = 'ix'
        klass = 'setitem/%s/%s%s' % (via, idx['k'], '/overlap' if overlap else '')
        ri = real_index(idx)
        if via == 'atoms':
            ctx.must('C06.X', dst.atoms.__setitem__, ri, src_real, klass=klass)
        elif via == 'prop':
            ctx.must('C06.X', dst.atoms.prop, index=ri, value=src_real, klass=klass)
        else:
            ctx.must('C06.X', dst.real.atoms_ix.__setitem__, ri, src_real, klass=klass)
        old_nt = dst.natypes()
        for j, rrow in enumerate(rows):
            s = srows[0] if len(srows) == 1 else srows[j]
            for nm, (cls, ts) in dst.reg.items():
                v = s[nm]
                self._write(st, dst, nm, rrow, self._cell(cls, ts, v.tolist() if isinstance(v, np.ndarray) else v))
        if dst.natypes() > old_nt:
            ctx.probe('natypes_grew')
        ctx.ev('op', 'setitem', {'o': op['o'], 'index': idx, 'via': via, 'overlap': overlap})
        return {'changed': True, 'ik': idx['k'], 'via': via, 'aliased': overlap or bool(dst.links)}

    def _ap_df(self, ctx, st, op):
        m = st['pool'][op['o']]
        scale = bool(op.get('scale')) and m.kind == 'system'
        slist = [nm for nm in (op.get('scale_list') or []) if nm in m.reg and m.reg[nm] == ('float', (3,))] if m.kind == 'system' else []
        sstr = op.get('scale_str')
        if m.kind == 'system' and len(slist) >= 2:
            df = ctx.must('C06.A3', m.real.atoms_df, scale=list(slist), klass='atoms_df/list')
            scale = False
            ctx.probe('atoms_df_scale_list')
        elif m.kind == 'system' and sstr and m.reg.get(sstr) == ('float', (3,)):
            slist = [sstr]
            df = ctx.must('C06.A3', m.real.atoms_df, scale=str(sstr), klass='atoms_df/str')
            scale = False
            ctx.probe('atoms_df_scale_given_as_one_name')
        elif m.kind == 'system':
            slist = []
            df = ctx.must('C06.A3', m.real.atoms_df, scale=scale, klass='atoms_df')
        else:
            df = ctx.must('C06.A3', m.atoms.df, klass='df')
        ncol = sum(int(np.prod(ts)) if ts else 1 for _, ts in m.reg.values())
        if df.shape != (m.n, ncol):
            raise Violation('C06.A1', {'what': 'df shape', 'got': list(df.shape), 'want': [m.n, ncol]}, klass='df/shape')
        for nm, (cls, ts) in m.reg.items():
            for ix in np.ndindex(*ts):
                col = nm + ''.join('[%d]' % i for i in ix)
                if col not in df.columns:
                    raise Violation('C06.A3', {'what': 'df column missing', 'col': col}, klass='df/columns')
                if scale and nm == 'pos':
                    continue
                if nm in slist:
                    continue
                got = df[col].values
                for i in range(m.n):
                    w = m.rows[i][nm]
                    w = w[ix] if ts else w
                    if not veq(got[i], w, cls) and not any(veq(got[i], (c[ix] if ts else c), cls) for c in m.cands.get((nm, i), [])):
                        raise Violation('C06.A3', {'what': 'df value', 'col': col, 'row': i, 'got': got[i], 'want': w}, klass='df/value')
        size = float(np.abs(m.V).max()) + float(np.abs(m.o).max()) if m.kind == 'system' else 1.0
        for nm in slist:
            relv = np.array([df[nm + '[%d]' % i].values for i in range(3)], dtype=float).T
            back = geom.rel_to_cart(m.V, m.o, relv)
            for i in range(m.n):
                okv = any(np.all(np.abs(back[i] - np.asarray(c, dtype=float)) <= 1e-9 * size + 1e-9 * np.abs(np.asarray(c, dtype=float)))
                          for c in [m.rows[i][nm]] + m.cands.get((nm, i), []))
                if not okv:
                    raise Violation('C06.A3', {'what': 'box-relative columns of atoms_df do not map back to the stored values', 'property': nm,
                                               'row': i, 'got_rel': relv[i], 'want_cart': m.rows[i][nm], 'scale_list': slist}, klass='df/scaled')
        ctx.probe('df_checked')
        # the table is the caller's: it keeps it while editing the atoms, and may write into it
        held = st.setdefault('held_df', [])
        if op.get('scribble') and df.shape[0] and df.shape[1]:
            num = [j for j, c in enumerate(df.columns) if df[c].dtype.kind in 'iuf']
            if num:
                snap = df.copy(deep=True)
                for j in num:
                    df.iloc[:, j] = op.get('junk', 66)
                ctx.fault('scribble_result')
                ctx.probe('scribble_on_table')
                df = snap
        else:
            held.append((df, df.copy(deep=True)))
            del held[:-3]
        ctx.ev('op', 'df', {'o': op['o'], 'scale': scale, 'scale_list': slist})
        return {}

    # -- system level
    def _ap_symbols(self, ctx, st, op):
        m = st['pool'][op['o']]
        if m.kind != 'system':
            return {'skip': 1}
        v = op['value']
        form = op.get('form', 'plain')
        if isinstance(v, str):
            given = np.str_(v) if form == 'numpy' else v       # e.g. what np.unique(elements)[0] hands over
            if form == 'numpy':
                ctx.probe('symbol_as_numpy_string')
        elif form == 'tuple':
            given = tuple(v)
        elif form == 'numpy' and v and all(x is not None for x in v):
            given = np.array(v)
            ctx.probe('symbol_as_numpy_string')
        else:
            given = list(v)
        ctx.must('C06.X', setattr, m.real, 'symbols', given, klass='symbols=')
        m.symbols = [v] if isinstance(v, str) else list(v)
        ctx.ev('op', 'symbols', {'o': op['o'], 'value': v})
        return {'changed': True}

    def _ap_masses(self, ctx, st, op):
        m = st['pool'][op['o']]
        if m.kind != 'system':
            return {'skip': 1}
        v = op['value']
        vals = [v] if not isinstance(v, list) else list(v)
        nt = max(m.natypes(), len(m.symbols))
        if len(vals) > nt:
            return {'skip': 1}
        ctx.must('C06.X', setattr, m.real, 'masses', v if not isinstance(v, list) else list(v), klass='masses=')
        m.masses = vals
        ctx.ev('op', 'masses', {'o': op['o'], 'value': v})
        return {'changed': True}

    def _ap_pbc(self, ctx, st, op):
        m = st['pool'][op['o']]
        if m.kind != 'system':
            return {'skip': 1}
        ctx.must('C06.X', setattr, m.real, 'pbc', [bool(x) for x in op['value']], klass='pbc=')
        m.pbc = [bool(x) for x in op['value']]
        ctx.ev('op', 'pbc', {'o': op['o'], 'value': op['value']})
        return {'changed': True}

    def _ap_box_set(self, ctx, st, op):
        m = st['pool'][op['o']]
        if m.kind != 'system':
            return {'skip': 1}
        V = np.array(op['V'], dtype=float)
        o = np.array(op['origin'], dtype=float)
        if op['via'] == 'box':
            ctx.must('C06.X', m.real.box.set, vects=V, origin=o, klass='box.set')
        else:
            ctx.must('C06.X', m.real.box_set, vects=V, origin=o, klass='box_set')
        m.V, m.o, m.box_cands = V, o, []
        shared = 0
        for other in st['pool']:
            if other is not m and other.kind == 'system' and other.box_group == m.box_group:
                other.box_cands.append((V, o))      # documented as possibly shared: old or new
                shared += 1
        if shared:
            ctx.probe('box_set_with_possible_sharers')
        ctx.fault('box_changed_under_relatives')
        ctx.ev('op', 'box_set', {'o': op['o'], 'V': V, 'origin': o})
        return {'changed': True, 'aliased': bool(shared), 'via': op['via']}

    def _ap_scaled_get(self, ctx, st, op):
        m = st['pool'][op['o']]
        if m.kind != 'system':
            return {'skip': 1}
        idx = op['index']
        rows = list(range(m.n)) if idx is None else resolve(idx, m.n)
        if rows is None:
            return {'skip': 1}
        kw = {} if idx is None else {'index': real_index(idx)}
        if op.get('a_id') and idx is not None and idx['k'] == 'int' and idx['i'] >= 0:
            kw = {'a_id': int(idx['i'])}
            ctx.probe('scaled_access_by_a_id')
        size = float(np.abs(m.V).max()) + float(np.abs(m.o).max())
        if op['key'] is None:
            sub = ctx.must('C06.A3', m.real.atoms_prop, scale=True, klass='atoms_prop(scale)/atoms', **kw)
            got = np.asarray(sub.view['pos'])
            if np.shares_memory(got, m.atoms.view['pos']):
                raise Violation('C06.A7', {'what': 'atoms_prop(scale=True) Atoms shares pos with storage'}, klass='scaled/alias')
        else:
            got = np.asarray(ctx.must('C06.A3', m.real.atoms_prop, 'pos', scale=True, klass='atoms_prop(scale)/pos', **kw))
            if got.ndim and np.shares_memory(got, m.atoms.view['pos']):
                raise Violation('C06.A7', {'what': 'atoms_prop(pos, scale=True) shares memory with storage'}, klass='scaled/alias')
        got2 = got.reshape(-1, 3)
        if got2.shape[0] != len(rows):
            raise Violation('C06.A1', {'what': 'scaled get count', 'got': int(got2.shape[0]), 'want': len(rows)}, klass='scaled/shape')
        back = geom.rel_to_cart(m.V, m.o, got2)
        for j, rrow in enumerate(rows):
            ok = any(np.all(np.abs(back[j] - np.asarray(c, dtype=float)) <= 1e-9 * size + 1e-9 * np.abs(c))
                     for c in [m.rows[rrow]['pos']] + m.cands.get(('pos', rrow), []))
            if not ok:
                raise Violation('C06.A3', {'what': 'scaled position does not map back to the stored position', 'row': rrow,
                                           'got_rel': got2[j], 'want_cart': m.rows[rrow]['pos']}, klass='scaled/value')
        if got.ndim:
            got[...] = op['junk']
            ctx.fault('scribble_result')
        ctx.ev('op', 'scaled_get', {'o': op['o'], 'key': op['key'], 'index': idx})
        return {'ik': 'none' if idx is None else idx['k'], 'via': 'key' if op['key'] else 'atoms'}

    def _ap_scaled_set(self, ctx, st, op):
        m = st['pool'][op['o']]
        if m.kind != 'system':
            return {'skip': 1}
        idx = op['index']
        rows = list(range(m.n)) if idx is None else resolve(idx, m.n)
        if rows is None or len(set(rows)) != len(rows):
            return {'skip': 1}
        rel = np.array(op['rel'], dtype=float)
        if op['form'] == 'each' and rel.shape != (len(rows), 3):
            return {'skip': 1}
        kw = {} if idx is None else {'index': real_index(idx)}
        if op.get('a_id') and idx is not None and idx['k'] == 'int' and idx['i'] >= 0:
            kw = {'a_id': int(idx['i'])}
            ctx.probe('scaled_access_by_a_id')
        ctx.must('C06.X', m.real.atoms_prop, 'pos', value=rel, scale=True, klass='atoms_prop(scale)/set/' + (idx['k'] if idx else 'none'), **kw)
        cart = geom.rel_to_cart(m.V, m.o, rel.reshape(-1, 3))
        for j, rrow in enumerate(rows):
            self._write(st, m, 'pos', rrow, cart[0 if cart.shape[0] == 1 else j].copy())
        ctx.probe('scaled_write')
        ctx.ev('op', 'scaled_set', {'o': op['o'], 'index': idx, 'rel': rel})
        return {'changed': True, 'ik': 'none' if idx is None else idx['k']}

    def _ap_atoms_extend(self, ctx, st, op):
        src = st['pool'][op['o']]
        if src.kind != 'system':
            return {'skip': 1}
        sc = bool(op['safecopy'])
        kw = {'safecopy': sc}
        if op['symbols'] is not None:
            kw['symbols'] = list(op['symbols'])
        if 'count' in op:
            orows = oreg = None
            count = op['count']
            res = ctx.must('C06.A6', src.real.atoms_extend, count, klass='atoms_extend/count', **kw)
        else:
            got = self._operand(ctx, st, op)
            if got is None:
                return {'skip': 1}
            oa, orows, oreg, _ = got
            for nm in oreg:
                if nm in src.reg and not compatible(src.reg[nm], oreg[nm]):
                    return {'skip': 1}
            count = len(orows)
            scale = bool(op['scale'])
            before = np.array(oa.view['pos'])
            klass = 'atoms_extend/%s/%s' % ('scaled' if scale else 'cart', 'same-n' if count == src.n else 'other-n')
            res = ctx.must('C06.A3', src.real.atoms_extend, oa, scale=scale, klass=klass, **kw)
            if not np.array_equal(before, oa.view['pos']):
                raise Violation('C06.A6', {'what': 'atoms_extend changed its operand', 'before': before, 'after': np.array(oa.view['pos'])},
                                klass='atoms_extend/operand')
            if scale:
                orows = [dict(r) for r in orows]
                for r in orows:
                    r['pos'] = geom.rel_to_cart(src.V, src.o, r['pos'])
                ctx.probe('scaled_write')
            if sc:
                oa.view['pos'][...] = op['junk']
                ctx.fault('scribble_safecopy')
        m = self._new_obj(st, 'system')
        m.real = res
        self._extended_model(st, m, 'system', src, orows, oreg, count)
        m.V, m.o, m.pbc = src.V, src.o, list(src.pbc)
        nt_src = src.natypes()
        m.symbols = list(op['symbols']) if op['symbols'] is not None else list(src.symbols) + [None] * max(0, nt_src - len(src.symbols))
        m.masses = []
        m.box_shared = not sc
        m.box_group = m.uid if sc else src.box_group
        m.box_cands = list(src.box_cands)
        self._add(st, m)
        ctx.ev('op', 'atoms_extend', {'o': op['o'], 'count': count, 'scale': bool(op.get('scale')), 'safecopy': sc})
        return {'changed': True, 'ik': 'count' if orows is None else 'atoms', 'via': 'scaled' if op.get('scale') else 'cart'}

    # -- refusals
    def _ap_refuse(self, ctx, st, op):
        m = st['pool'][op['o']]
        what = op['what']
        atoms = m.atoms
        touched = []        # (name,row) cells that may hold a new value afterwards
        if what == 'wrong_first_dim':
            key = op['key']
            if key not in m.reg or len(op['value']) in (1, m.n):
                return {'skip': 1}
            v = np.array(op['value'])
            f = {'attr': lambda: setattr(atoms, key, v), 'view': lambda: atoms.view.__setitem__(key, v),
                 'prop': lambda: atoms.prop(key=key, value=v)}[op['via']]
            ok, res = ctx.sut(f)
            must = True
        elif what == 'atype_lt1':
            if len(op['value']) != m.n or min(op['value']) >= 1:
                return {'skip': 1}
            form = op.get('form', 'full')
            bad = int(op.get('bad', 0))
            v = {'full': np.array(op['value']), 'list': list(op['value']), 'len1': [bad], 'pyint': bad, 'npint': np.int64(bad),
                 '0d': np.array(bad)}[form]
            dt = op.get('dt', 'int64')
            if dt != 'int64' and form in ('full', 'len1', 'npint', '0d'):
                if dt[0] in 'ub':
                    # unsigned and boolean arrays: the offending entries become 0 / False
                    v = np.where(np.asarray(v) < 1, 0, np.asarray(v))
                v = np.asarray(v).astype(dt)
                if form == 'npint':
                    v = v[()]
                ctx.probe('atype_lt1_unusual_dtype')
            via = op['via'] if (op['via'] != 'sys_prop' or m.kind == 'system') else 'prop'
            f = {'attr': lambda: setattr(atoms, 'atype', v), 'view': lambda: atoms.view.__setitem__('atype', v),
                 'prop': lambda: atoms.prop(key='atype', value=v),
                 'sys_prop': lambda: m.real.atoms_prop(key='atype', value=v)}[via]
            if form not in ('full', 'list'):
                ctx.probe('atype_lt1_scalar_forms')
            ok, res = ctx.sut(f)
            must = True
        elif what == 'setitem_mismatch':
            spec = op['spec']
            if not self._spec_ok(st, spec) or set(spec['props']) | {'atype', 'pos'} == set(m.reg) or m.n < 1:
                return {'skip': 1}
            a, _, _, _ = self._build_atoms(ctx, spec)
            how = op.get('how', 'int')
            rows = int(spec['n'])
            if rows > m.n or (rows > 1 and how in ('int', 'negint')):
                return {'skip': 1}
            ix = {'int': 0, 'negint': -m.n, 'slice': slice(0, rows), 'list': list(range(rows))}[how]
            via = op.get('via', 'atoms')
            if via == 'ix' and m.kind == 'system':
                ok, res = ctx.sut(m.real.atoms_ix.__setitem__, ix, a)
            elif via == 'prop':
                ok, res = ctx.sut(atoms.prop, index=ix, value=a)
            else:
                ok, res = ctx.sut(atoms.__setitem__, ix, a)
            if len(spec['props']) + 2 == len(m.reg):
                ctx.probe('refused_setitem_same_number_of_properties')
            must = True
        elif what == 'too_many_masses':
            if m.kind != 'system':
                return {'skip': 1}
            nt = max(m.natypes(), len(m.symbols))
            ok, res = ctx.sut(setattr, m.real, 'masses', [1.0] * (nt + 1))
            must = True
        elif what == 'a_id_and_index':
            ok, res = ctx.sut(atoms.prop, key='pos', index=0, a_id=0)
            must = True
        elif what == 'unknown_key':
            ok, res = ctx.sut(atoms.prop, key='no_such_key', index=0, value=1.0)
            must = True
        elif what == 'value_without_key':
            ok, res = ctx.sut(atoms.prop, value=[1.0, 2.0, 3.0])
            must = True
        elif what == 'prop_atype_bad':
            if op['atype'] <= m.natypes():
                return {'skip': 1}
            key = op.get('key', 'pos')
            if key != 'pos' and key in m.reg:
                key = 'pos'
            cls, ts = ('float', (3,)) if key == 'pos' else st['reg'].get(key, ('float', ()))
            ok, res = ctx.sut(atoms.prop_atype, key, zero_of(cls, ts) if ts else 1.5, atype=op['atype'])
            if key != 'pos':
                ctx.probe('refused_prop_atype_on_new_key')
            must = True
        elif what == 'new_key_wrong_len':
            key = op['key']
            if key in m.reg or len(op['bad']) in (1, m.n) or len(op['good']) != m.n:
                return {'skip': 1}
            v = np.array(op['bad'])
            f = {'attr': lambda: setattr(atoms, key, v), 'view': lambda: atoms.view.__setitem__(key, v),
                 'prop': lambda: atoms.prop(key=key, value=v)}[op['via']]
            ok, res = ctx.sut(f)
            ctx.probe('refused_new_property_of_wrong_length')
            if True:
                # the caller assigns again with the right length, the same way (whether or not the first attempt was refused):
                # now it is a per-atom property like any other
                good = np.array(op['good'])
                f2 = {'attr': lambda: setattr(atoms, key, good), 'view': lambda: atoms.view.__setitem__(key, good),
                      'prop': lambda: atoms.prop(key=key, value=good)}[op['via']]
                ctx.must('C06.X', f2, klass='retry-after-refusal/' + op['via'])
                if key not in atoms.view:
                    raise Violation('C06.A2', {'what': 'a full-length value was assigned under a new name and accepted, but no per-atom property exists',
                                               'key': key, 'via': op['via'], 'first_attempt_refused': not ok}, klass='retry-after-refusal/no-property')
                ok = False          # the object is as the model says: nothing to adopt
                cls, ts = st['reg'][key]
                m.reg[key] = (kind_of(good), ts)
                for i, row in enumerate(m.rows):
                    row[key] = self._cell(kind_of(good), ts, op['good'][i])
            must = True
        elif what == 'entry_shaped_value':
            key = op['key']
            if key not in m.reg:
                return {'skip': 1}
            cls, ts = m.reg[key]
            if m.n in (1, ts[0]) or m.n == 0:
                return {'skip': 1}              # then one entry IS a legal length-1 / full-length value
            v = np.array(op['value']).reshape(ts)
            via = op['via'] if (op['via'] != 'sys_prop' or m.kind == 'system') else 'prop'
            f = {'attr': lambda: setattr(atoms, key, v), 'view': lambda: atoms.view.__setitem__(key, v),
                 'prop': lambda: atoms.prop(key=key, value=v),
                 'sys_prop': lambda: m.real.atoms_prop(key=key, value=v)}[via]
            ok, res = ctx.sut(f)
            ctx.probe('refused_value_shaped_like_one_entry')
            must = True
        elif what == 'scaled_get_nonvector':
            key = op['key']
            if m.kind != 'system' or key not in m.reg or m.n < 1:
                return {'skip': 1}
            ok, res = ctx.sut(m.real.atoms_prop, key=key, scale=True)
            ctx.probe('scaled_read_of_a_non_vector')
            if ok and isinstance(res, np.ndarray) and res.flags.writeable and res.dtype.kind == 'f':
                # not refused: then it is a copying accessor's result like any other, and the caller's to write on
                res[...] = op.get('junk', 55)
                ctx.fault('scribble_result')
                return {'refused': False, 'via': what}
            must = True
        elif what == 'system_ctor_refused':
            if m.kind != 'atoms' or m.n < 1:
                return {'skip': 1}
            # building a System around this Atoms is refused (more masses than atom types): the Atoms is the caller's and
            # must come out of the failed call as it went in, so that the corrected retry starts from the same data
            nt = m.natypes()
            box = am.Box(vects=np.array(op['V'], dtype=float), origin=np.array(op['origin'], dtype=float))
            kw = {'masses': [1.0] * (nt + 2), 'symbols': ['Al'] * nt}      # symbols fix the number of types: two masses too many
            ok, res = ctx.sut(am.System, atoms=atoms, box=box, scale=bool(op.get('scale')), **kw)
            ctx.probe('refused_system_constructor')
            must = True
        elif what == 'setitem_nonatoms':
            ok, res = ctx.sut(atoms.__setitem__, 0, {'pos': [0, 0, 0]})
            must = True
        else:
            ok, res = ctx.sut(atoms.extend, 'three')
            must = True
        ctx.fault('refused')
        ctx.ev('op', 'refuse', {'o': op['o'], 'what': what}, {'raised': (not ok) and type(res).__name__})
        if ok:
            # The statement does not demand the refusal itself.  Adopt whatever the object now
            # holds and let the structural invariants (A1, A2, A4, A5) judge it.
            ctx.probe('refusal_not_raised')
            self._resync(m)
        else:
            ctx.probe('refused_raised')
        return {'refused': True, 'via': what}

    def _resync_prop(self, m, key):
        got = m.atoms.view[key]
        m.reg[key] = (kind_of(got), tuple(got.shape[1:]))
        for i, row in enumerate(m.rows):
            if i < got.shape[0]:
                v = got[i]
                row[key] = v.copy() if isinstance(v, np.ndarray) and v.ndim else (v.item() if hasattr(v, 'item') else v)
            m.cands.pop((key, i), None)

    def _resync(self, m):
        atoms = m.atoms
        for key in list(m.reg):
            if key not in atoms.view:
                del m.reg[key]
                for row in m.rows:
                    row.pop(key, None)
        for key in atoms.view:
            if atoms.view[key].shape[:1] == (m.n,):
                self._resync_prop(m, key)
        if m.kind == 'system':
            m.symbols = list(m.real.symbols)
            m.masses = list(m.real.masses)

    # ------------------------------------------------------------------
    def _invariants(self, ctx, st, after):
        for df, snap in st.get('held_df', []):
            if not df.equals(snap):
                bad = [str(c) for c in df.columns if not df[c].equals(snap[c])]
                raise Violation('C06.A7', {'what': 'a table returned earlier by df()/atoms_df() changed when the atoms were edited',
                                           'columns': bad[:6], 'after': after}, klass='df/aliased')
        if st.get('held_df') and after != 'df':
            ctx.probe('held_table_checked_after_edits')
        for slot, m in enumerate(st['pool']):
            atoms = m.atoms
            if atoms.natoms != m.n:
                raise Violation('C06.A1', {'what': 'natoms', 'slot': slot, 'got': atoms.natoms, 'want': m.n, 'after': after}, klass='natoms')
            keys = list(atoms.view.keys())
            if keys != list(m.reg):
                raise Violation('C06.A3', {'what': 'property set/order', 'slot': slot, 'got': keys, 'want': list(m.reg), 'after': after},
                                klass='keys/' + after)
            for nm, (cls, ts) in m.reg.items():
                arr = atoms.view[nm]
                if arr.shape != (m.n,) + tuple(ts):
                    raise Violation('C06.A1', {'what': 'property not one entry per atom', 'key': nm, 'slot': slot, 'shape': list(arr.shape),
                                               'want': [m.n] + list(ts), 'after': after}, klass='shape/' + after)
                if kind_of(arr) != cls:
                    raise Violation('C06.A3', {'what': 'stored dtype class changed', 'key': nm, 'got': str(arr.dtype), 'want': cls,
                                               'after': after}, klass='dtype/' + after)
                if nm not in _ATTR_COLLISIONS:
                    attr = getattr(atoms, nm, None)
                    if attr is not arr:
                        raise Violation('C06.A2', {'what': 'attribute and view entry are different arrays', 'key': nm, 'slot': slot,
                                                   'after': after}, klass='attr-view/' + after)
                want = m.column(nm) if m.n else None
                if m.n and not veq(arr, want, cls):
                    for i in range(m.n):
                        if not veq(arr[i], m.rows[i][nm], cls):
                            alt = [c for c in m.cands.get((nm, i), []) if veq(arr[i], c, cls)]
                            if not alt:
                                raise Violation('C06.A3', {'what': 'cell differs from record-per-atom model', 'slot': slot, 'key': nm,
                                                           'row': i, 'got': arr[i], 'want': m.rows[i][nm], 'after': after,
                                                           'other_acceptable': len(m.cands.get((nm, i), []))},
                                                klass='value/%s/%s' % (after, nm if nm in ('pos', 'atype') else 'extra'))
                            ctx.probe('alias_candidate_used')
                            m.rows[i][nm] = alt[0].copy() if isinstance(alt[0], np.ndarray) else alt[0]
                # cells that agree with the primary value keep their candidates: sharing is still possible
            if m.n:
                at = atoms.view['atype']
                if at.min() < 1:
                    raise Violation('C06.A4', {'what': 'atype < 1', 'slot': slot, 'after': after}, klass='atype')
            if m.kind == 'system':
                s = m.real
                nt = int(atoms.view['atype'].max()) if m.n else 0
                st['inv_n'] = st.get('inv_n', 0) + 1
                if st['inv_n'] % 2:
                    # a caller may ask for the masses before anything has asked for the symbols
                    mas = ctx.must('C06.A5', getattr, s, 'masses', klass='masses')
                    sym = ctx.must('C06.A5', getattr, s, 'symbols', klass='symbols')
                else:
                    sym = ctx.must('C06.A5', getattr, s, 'symbols', klass='symbols')
                    mas = ctx.must('C06.A5', getattr, s, 'masses', klass='masses')
                if len(sym) < nt or len(mas) < nt:
                    raise Violation('C06.A5', {'what': 'symbols/masses shorter than number of atom types', 'symbols': list(sym),
                                               'masses': list(mas), 'natypes': nt, 'after': after}, klass='pad/' + after)
                wsym = list(m.symbols) + [None] * max(0, nt - len(m.symbols))
                if list(sym) != wsym:
                    raise Violation('C06.A5', {'what': 'symbols differ from model', 'got': list(sym), 'want': wsym, 'after': after},
                                    klass='symbols/' + after)
                m.symbols = wsym
                snt = max(nt, len(wsym))
                wmas = list(m.masses) + [None] * max(0, snt - len(m.masses))
                if len(mas) < len(wmas) or list(mas)[:len(wmas)] != wmas or any(x is not None for x in list(mas)[len(wmas):]):
                    raise Violation('C06.A5', {'what': 'masses differ from model', 'got': list(mas), 'want': wmas, 'after': after},
                                    klass='masses/' + after)
                m.masses = list(mas)
                if list(map(bool, s.pbc)) != list(m.pbc):
                    raise Violation('C06.A3', {'what': 'pbc differs', 'got': list(map(bool, s.pbc)), 'want': m.pbc}, klass='pbc')
                if s.natoms != m.n:
                    raise Violation('C06.A1', {'what': 'system natoms'}, klass='natoms')
                bv, bo = s.box.vects, s.box.origin

                def box_is(V, o):
                    return (np.all(np.abs(bv - V) <= 4e-9 * np.abs(V).max())
                            and np.all(np.abs(bo - o) <= 4e-9 * (np.abs(V).max() + np.abs(o).max())))
                if not box_is(m.V, m.o):
                    alt = [c for c in m.box_cands if box_is(*c)]
                    if not alt:
                        raise Violation('C06.A6', {'what': 'box of a pooled system changed', 'slot': slot, 'got': bv, 'want': m.V,
                                                   'after': after}, klass='box/' + after)
                    m.V, m.o = alt[0]
                    ctx.probe('box_alias_candidate_used')

    def simplify(self, op):
        out = []
        if op.get('as_array') is False:
            out.append(dict(op, as_array=True))
        if op.get('via') in ('sys', 'sys_prop', 'ix', 'prop'):
            out.append(dict(op, via='atoms' if op['op'] in ('prop_set', 'getitem', 'setitem') else 'view'))
        if op['op'] == 'new' and op.get('system') and op['system'].get('scale'):
            pass
        return out


_ATTR_COLLISIONS = set(dir(am.Atoms))


def idx_kind(idx):
    if idx is None:
        return 'none'
    if idx['k'] == 'int':
        return 'neg' if idx['i'] < 0 else 'int'
    return idx['k']


def compatible(dst, src):
    """Values of class/shape src are representable in a stored property of class/shape dst."""
    (dc, dts), (sc, sts) = dst, src
    if tuple(dts) != tuple(sts):
        return False
    if dc == sc:
        return True
    return dc == 'float' and sc in ('int', 'bool')
