"""C09 — unit conversion under any history of working-unit resets.

State under test: the process-global tables (numericalunits module globals and
atomman.unitconvert.unit) that every reset rebuilds.  The simulator owns the
`random` seam so that the unseeded reset draws from the run's PRNG, records the
five base values of each epoch as configuration, and computes every expectation
from them with its own unit table and dimension algebra.
"""

import itertools
import math
import random as _random

import numpy as np

from .. import unit_table as ut
from ..kernel import Engine, Violation

import atomman as am
import atomman.unitconvert as uc
import numericalunits as nu

QUANT = ['length', 'mass', 'time', 'energy', 'charge']
QDIM = {'length': ut.L_, 'mass': ut.M_, 'time': ut.T_, 'energy': ut.ENERGY, 'charge': ut.Q_}
QNAMES = {'length': ['m', 'cm', 'nm', 'angstrom', 'um', 'pm', 'aBohr', 'inch', 'Å'],
          'mass': ['kg', 'g', 'amu', 'pg', 'mg', 'me'],
          'time': ['s', 'ps', 'fs', 'ns', 'us', 'minute'],
          'energy': ['J', 'eV', 'erg', 'meV', 'kJ', 'kcal', 'Ry'],
          'charge': ['C', 'e', 'mC', 'uC']}
# an astronomer's choice of working units; only ever used together (a parsec with femtoseconds drives numericalunits'
# derived constants out of the float range, which is not the parser's or the table's fault)
ASTRO = {'length': ['pc', 'lightyear', 'astro_unit'], 'mass': ['Msolar', 'MEarth'], 'time': ['year', 'day']}


def draw_names(r, quantities):
    if r.random() < 0.15 and all(q in ASTRO for q in quantities):
        return {q: r.choice(ASTRO[q]) for q in quantities}
    return {q: r.choice(QNAMES[q]) for q in quantities}


# every subset of 1..4 quantities that does not fix energy AND all of length, mass, time
SUBSETS = [c for k in range(1, 5) for c in itertools.combinations(QUANT, k)
           if not {'length', 'mass', 'time', 'energy'} <= set(c)]

STYLE_DIM = {'mass': ut.M_, 'length': ut.L_, 'time': ut.T_, 'energy': ut.ENERGY, 'velocity': (1, 0, -1, 0, 0),
             'force': ut.FORCE, 'torque': ut.ENERGY, 'temperature': ut.TH, 'pressure': ut.PRESSURE,
             'dynamic viscosity': (-1, 1, -1, 0, 0), 'density': (-3, 1, 0, 0, 0), 'ang-mom': (2, 1, -1, 0, 0),
             'ang-vel': (0, 0, -1, 0, 0)}
STYLES = ['lj', 'real', 'metal', 'si', 'cgs', 'electron', 'micro', 'nano']

RT_ULP = 4
PARSE_RTOL = 1e-12


def ulps(a, b):
    a, b = float(a), float(b)
    if a == b:
        return 0.0
    return abs(a - b) / max(math.ulp(a), math.ulp(b))


class _RandomSeam:
    """Owns random.seed for the duration of a reset: an unseeded numericalunits reset
    draws its working units from a value the simulator chose and recorded."""

    def __init__(self, entropy):
        self.entropy = entropy

    def __enter__(self):
        self._seed = _random.seed
        ent = self.entropy

        def seed(a=None, version=2):
            return self._seed(ent if a is None else a, version)
        _random.seed = seed
        return self

    def __exit__(self, *a):
        _random.seed = self._seed


class UnitsEngine(Engine):
    prop = 'C09'
    name = 'epochs_c09'
    max_ops = 40
    expected_probes = ['named_after_random', 'unseeded_reset', 'named_sweep_subsets', 'precedence_pow_before_mul',
                       'precedence_left_to_right_div', 'nested_parens', 'whitespace_variants', 'cross_epoch_compared',
                       'style_fit_done', 'literal_with_unit', 'array_roundtrip', 'refused_reset_raised', 'integer_dtype_value', 'complex_value_roundtrip', 'refused_expression_raised',
                       'scribble_on_literal_result', 'named_keywords_in_other_order', 'scribble_on_unit_table']
    rule = ('Each run is a history of up to 40 operations on the process-global unit tables: working-unit resets (seeded '
            'random, unseeded random through the patched random seam, SI, atomman default, named subsets of length/mass/'
            'time/energy/charge with unit names drawn from a 31-name vocabulary, refused resets) interleaved with queries: '
            'set/get round trips on scalars and arrays, parse() of expressions generated from the grammar (89-name '
            'vocabulary, integer/decimal/negative/scientific literals, * / ^, parentheses to depth 4, random blanks, tabs '
            'and newlines; chained unparenthesised ^ and negative bases are not generated), set_literal terms, conversions '
            'between two expressions of one dimension compared ACROSS the epochs of the history, and the eight LAMMPS '
            'unit-style tables. Once per run every one of the 29 non-over-determined named subsets (1-4 of the five '
            'quantities) is reset to and checked (exhaustive per vocabulary draw). Values are real (float or integer typed) or complex. Expectations come from an independent '
            'unit table + dimension algebra applied to the five base values read after each reset. Non-trivial run: >= 2 '
            'resets. distinct = distinct (previous reset kind, reset kind, query kind, expression shape) signatures.')
    tolerances = {'round trip': '%d ulp' % RT_ULP, 'parse vs oracle': 'rel %g + slack(1e-8 per measured CODATA constant used)' % PARSE_RTOL,
                  'cross-epoch conversion': 'rel 1e-12', 'named unit == 1': 'rel 1e-12', 'fitted dimension exponents': 'abs 1e-6'}
    real_components = ['atomman.unitconvert (reset_units, build_unit, parse, set/get_in_units, set_literal)',
                       'atomman.lammps.style.unit', 'numericalunits (reset_units, set_derived_units_and_constants)']
    stub_components = ['random.seed behind numericalunits (unseeded reset draws a recorded value)',
                       'the caller: order of resets and queries']
    assumptions = ['CODATA-dependent constants (amu, aBohr, Ry, me) allowed 1e-8 relative slack',
                   'over-determined named choices (energy with length, mass and time) are outside the statement',
                   'electrical LAMMPS entries (charge, dipole, electric field) are not "mechanical" and are not checked',
                   'a refused reset_units chose nothing: the units of the last successful request stay in force, exactly', 'expressions outside the grammar (unknown names, unbalanced parentheses, dangling operators) may be refused or evaluated; the answer must be the same when repeated and the same through parse, set_in_units and get_in_units']

    # ------------------------------------------------------------------
    def config(self, ctx):
        r = ctx.rng
        return {'nops': r.randint(6, 40), 'vocab': {q: r.choice(QNAMES[q]) for q in QUANT}, 'depth': r.randint(1, 4),
                'w_reset': r.uniform(0.5, 2.0), 'start': r.choice(['default', 'seed', 'SI', 'inherit'])}

    def init(self, ctx, cfg):
        st = {'cfg': cfg, 'epochs': 0, 'prev_reset': 'init', 'conv': {}, 'style_obs': {}, 'base': None, 'swept': False,
              'last_kind': None}
        if cfg['start'] != 'inherit':
            self._reset(ctx, st, {'kind': cfg['start'], 'seed': 12345})
        else:
            # a worker inherits whatever the previous run left behind: make that explicit
            self._reset(ctx, st, {'kind': 'default'})
        return st

    # ------------------------------------------------------------------
    # expression generator
    def _gen_expr(self, ctx, depth, dim_names=None):
        r = ctx.rng
        names = sorted(ut.UNITS)

        def sp():
            return r.choice(['', '', '', ' ', '  ', '\t', ' \n '])

        def number():
            return r.choice(['2', '3', '10', '0.5', '1.5', '1e3', '1e-3', '2.5e2', '100', '.25'])

        def atom(d):
            k = r.random()
            if d > 0 and k < 0.3:
                return '(' + sp() + expr(d - 1) + sp() + ')'
            if k < 0.45:
                return number()
            return r.choice(names)

        def term(d):
            a = atom(d)
            if r.random() < 0.35:
                p = r.choice(['2', '3', '-1', '-2', '0.5', '1', '(1/2)', '(-1)', '-0.5'])
                if a[0].isdigit() or a[0] == '.':
                    p = r.choice(['2', '-1', '3'])
                return a + sp() + '^' + sp() + p
            return a

        def expr(d):
            n = r.randint(1, 4)
            s = term(d)
            for _ in range(n - 1):
                s += sp() + r.choice(['*', '/']) + sp() + term(d)
            return s
        return sp() + expr(depth) + sp()

    def _same_dim_pair(self, ctx):
        r = ctx.rng
        dims = [d for d, ns in sorted(ut.NAMES_BY_DIM.items()) if len(ns) >= 2]
        d = r.choice(dims)
        a, b = r.sample(ut.NAMES_BY_DIM[d], 2)
        # dress both sides with the same extra factor so that compound expressions are compared too
        extra = r.choice(['', '', '/ps', '*angstrom^2', '/(mol*nm)', '^2', '*kB*K/eV'])
        if extra == '^2':
            return '(%s)^2' % a, '(%s)^2' % b
        return a + extra, b + extra

    def gen(self, ctx, st):
        r = ctx.rng
        cfg = st['cfg']
        k = ctx.wchoice([('reset', cfg['w_reset']), ('roundtrip', 1.0), ('parse', 2.0), ('convert', 1.2), ('literal', 0.6),
                         ('style', 0.6), ('refused', 0.3), ('sweep', 0.0 if st['swept'] else 0.25),
                         ('badexpr', 0.0 if cfg.get('fault_free') else 0.5)])
        if k == 'badexpr':
            bad = r.choice(['Gpa', 'angstom', '(m/s', 'm/s)', 'kg*(m/(s*Gpa))', 'eV/(angstrom^3', '((m))/((s)*(furlong))', 'm**2',
                            '(((((m/(s*(kg/(mol*(K/(Gpa)))))))))', 'nm $ s', 'kcal/mole', ')m(',
                            'eV/', 'nm^', 'kg*m/s^', 'GPa *', 'eV/()', 'J/(mol*)', 'eV/(angstrom^3 ', '((m/s) ', '(kg*mm'])
            return {'op': 'badexpr', 'expr': bad, 'via': r.choice(['parse', 'set', 'get', 'literal']), 'reps': r.choice([1, 2, 2, 3, 8, 20]),
                    'then': r.choice(['(kg * (m / s) ^ 2) / (mol * K)', 'eV/angstrom^3', 'GPa', '((nm))'])}
        if k == 'reset':
            kind = ctx.wchoice([('seed', 2), ('unseeded', 1), ('SI', 0.6), ('default', 0.6), ('named', 2.5)])
            op = {'op': 'reset', 'kind': kind}
            if kind == 'seed':
                op['seed'] = r.choice([0, 1, 42, r.getrandbits(31)])
            elif kind == 'unseeded':
                op['entropy'] = r.getrandbits(62)
            elif kind == 'named':
                sub = r.choice(SUBSETS)
                op['named'] = draw_names(r, sub)
                if any(v in sum(ASTRO.values(), []) for v in op['named'].values()):
                    ctx.probe('astronomical_working_units')
                # keyword arguments in whatever order the caller wrote them (replay files sort dict keys: the order is recorded)
                op['order'] = r.sample(list(sub), len(sub))
            if r.random() < 0.15:
                # the caller has overwritten an entry of the table before asking for new working units
                op['scribble'] = r.choice(['mm', 'eV', 'kg', 'm', 'angstrom', 'GPa'])
            return op
        if k == 'roundtrip':
            shape = r.choice([(), (), (3,), (2, 3), (1,)])
            n = int(np.prod(shape)) if shape else 1
            vals = [r.choice([r.uniform(-1e3, 1e3), 10 ** r.uniform(-12, 12), float(r.randint(-5, 5))]) for _ in range(n)]
            op = {'op': 'roundtrip', 'expr': self._gen_expr(ctx, r.randint(0, 2)), 'shape': list(shape), 'values': vals,
                  'as_list': r.random() < 0.3, 'dtype': r.choice(['float', 'float', 'float', 'int', 'float', 'float', 'float', 'int', 'complex'])}
            if op['dtype'] == 'int':
                op['values'] = [float(r.randint(-9, 99)) for _ in range(n)]
            if op['dtype'] == 'complex':
                # amplitudes, structure factors, dynamical matrices: values with an imaginary part carry units as well
                op['imag'] = [r.choice([r.uniform(-1e3, 1e3), float(r.randint(-5, 5)), 10 ** r.uniform(-6, 6)]) for _ in range(n)]
            return op
        if k == 'parse':
            special = r.random()
            if special < 0.12:
                a, b, c = r.sample(sorted(ut.UNITS), 3)
                return {'op': 'parse', 'expr': '%s/%s*%s' % (a, b, c), 'tag': 'l2r'}
            if special < 0.24:
                a, b = r.sample(sorted(ut.UNITS), 2)
                return {'op': 'parse', 'expr': '%s*%s^%s' % (a, b, r.choice(['2', '-1', '3'])), 'tag': 'pow'}
            if special < 0.32:
                a, b, c = r.sample(sorted(ut.UNITS), 3)
                return {'op': 'parse', 'expr': '%s/%s/%s' % (a, b, c), 'tag': 'l2r'}
            return {'op': 'parse', 'expr': self._gen_expr(ctx, cfg['depth']), 'tag': 'grammar'}
        if k == 'convert':
            e1, e2 = self._same_dim_pair(ctx)
            return {'op': 'convert', 'e1': e1, 'e2': e2, 'x': r.choice([1.0, r.uniform(-100, 100), 10 ** r.uniform(-6, 6)])}
        if k == 'literal':
            val = r.choice(['1.5', '-2', '3e-2', '[1.0, 2.0, 3.0]', '[[1, 2], [3, 4]]', '0', '(1, 2, 3)', '(7,)', '((1, 2), (3, 4))',
                            '(0.5, -1.5)', '[ 1.0 , 2.0 ]', '2.5E+1', '.5', '-.25e1', '1.5, 2.5, 3.5', '4, 5', '[1, 2, ]', '[1.0, 2.0,\n ]',
                            '(3, 4, )'])
            u = r.choice(['', 'eV', 'angstrom', 'm/s', 'kg*m / s^2', 'GPa', 'eV/angstrom^3', ' nm ', 'J/(m^2)', 'kcal/(mol*angstrom)',
                          '(m/s)^2', 'eV/(angstrom^3)', '(kg*m)/(s^2)'])
            return {'op': 'literal', 'value': val, 'unit': u, 'gap': r.choice([' ', '  '])}
        if k == 'style':
            return {'op': 'style', 'style': r.choice(STYLES)}
        if k == 'sweep':
            return {'op': 'sweep'}
        return {'op': 'refused', 'what': r.choice(['five_named', 'seed_with_names', 'unknown_unit_name'])}

    # ------------------------------------------------------------------
    def apply(self, ctx, st, op):
        k = op['op']
        ctx.op(k)
        shape = ''
        if k != 'reset' and k != 'sweep' and k != 'refused' and st.get('astro'):
            # parsecs, solar masses and years as working units push ordinary expressions towards the ends of the float
            # range; in such an epoch only the clause about the chosen units themselves is evaluated (at the reset)
            ctx.ev('skip', k)
            return
        if k == 'reset':
            self._reset(ctx, st, op)
            astro_names = set(sum(ASTRO.values(), []))
            st['astro'] = op['kind'] == 'named' and any(v in astro_names for v in (op.get('named') or {}).values())
            shape = op['kind'] + ('/' + '+'.join(sorted(op['named'])) if op['kind'] == 'named' else '')
            ctx.changes += 1
        elif k == 'roundtrip':
            self._roundtrip(ctx, st, op)
            shape = 'array' if op['shape'] else 'scalar'
        elif k == 'parse':
            shape = self._parse(ctx, st, op)
        elif k == 'convert':
            self._convert(ctx, st, op)
        elif k == 'literal':
            self._literal(ctx, st, op)
            shape = 'unit' if op['unit'].strip() else 'bare'
        elif k == 'style':
            self._style(ctx, st, op['style'])
            shape = op['style']
        elif k == 'sweep':
            self._sweep(ctx, st)
        elif k == 'refused':
            self._refused(ctx, st, op)
            shape = op['what']
        elif k == 'badexpr':
            shape = self._badexpr(ctx, st, op)
        ctx.sig(st['prev_reset'], st['last_kind'], k, shape)

    # -- resets
    def _reset(self, ctx, st, op):
        kind = op['kind']
        if op.get('scribble') and op['scribble'] in uc.unit:
            uc.unit[op['scribble']] = 5253.0
            ctx.fault('scribble_on_unit_table')
            ctx.probe('scribble_on_unit_table')
        if kind == 'seed':
            ctx.must('C09.X', uc.reset_units, op['seed'], klass='reset/seed')
        elif kind == 'unseeded':
            with _RandomSeam(op['entropy']):
                ctx.must('C09.X', uc.reset_units, klass='reset/unseeded')
            ctx.probe('unseeded_reset')
            ctx.fault('unseeded_reset')
        elif kind == 'SI':
            ctx.must('C09.X', uc.reset_units, 'SI', klass='reset/SI')
        elif kind == 'default':
            ctx.must('C09.X', uc.reset_units, length='angstrom', mass='amu', energy='eV', charge='e', klass='reset/default')
        else:
            order = [q for q in op.get('order') or QUANT if q in op['named']] + [q for q in QUANT if q in op['named'] and q not in (op.get('order') or QUANT)]
            named = {q: op['named'][q] for q in order if q in QUANT}
            if list(named) != [q for q in QUANT if q in named]:
                ctx.probe('named_keywords_in_other_order')
            if st['last_kind'] in ('seed', 'unseeded'):
                ctx.probe('named_after_random')
            ctx.must('C09.X', uc.reset_units, klass='reset/named/' + '+'.join(sorted(named)), **named)
            self._check_named(ctx, named, after=st['last_kind'])
        st['base'] = ut.base_of(nu)
        st['prev_reset'] = st['last_kind']
        st['last_kind'] = kind
        st['epochs'] += 1
        ctx.ev('reset', kind, {k: v for k, v in op.items() if k != 'op'}, {'base': list(st['base'])})
        # the table atomman reads must be the table numericalunits now holds
        for name in ('m', 'kg', 's', 'C', 'K', 'eV', 'angstrom'):
            if uc.unit.get(name) != getattr(nu, name):
                raise Violation('C09.K2', {'what': 'unitconvert.unit is stale after reset', 'name': name, 'table': uc.unit.get(name),
                                           'numericalunits': getattr(nu, name)}, klass='stale-table/' + kind)

    def _check_named(self, ctx, named, after):
        for q, name in sorted(named.items()):
            v = ctx.must('C09.K4', uc.parse, name, klass='parse-name')
            if not abs(v - 1.0) <= 1e-12:
                raise Violation('C09.K4', {'what': 'chosen working unit does not have the value one', 'quantity': q, 'unit': name,
                                           'value': v, 'chosen': named, 'previous_epoch': after},
                                klass='named/%s/%s' % ('+'.join(sorted(named)), q))

    def _sweep(self, ctx, st):
        """All 29 non-over-determined named subsets for this run's vocabulary, from the current epoch."""
        vocab = st['cfg']['vocab']
        for sub in SUBSETS:
            named = {q: vocab[q] for q in sub}
            ctx.must('C09.X', uc.reset_units, klass='reset/named/' + '+'.join(sorted(named)), **named)
            self._check_named(ctx, named, after=st['last_kind'])
            st['astro'] = False
            ctx.probe('named_sweep_subsets')
            st['last_kind'] = 'named'
        st['base'] = ut.base_of(nu)
        st['epochs'] += 1
        st['swept'] = True
        ctx.changes += 1
        ctx.ev('reset', 'sweep', {'vocab': vocab}, {'base': list(st['base'])})

    # -- queries
    def _expect(self, st, expr):
        f, d, s, extreme = ut.evaluate_bounded(expr, st['base'])
        if extreme > 150:
            raise ut.ExprError('intermediate leaves the full-precision float64 range')
        return ut.working_value(f, d, st['base']), d, s

    def _roundtrip(self, ctx, st, op):
        expr = op['expr']
        try:
            want, d, s = self._expect(st, expr)
        except (ut.ExprError, OverflowError, ZeroDivisionError, ValueError):
            ctx.ev('skip', 'roundtrip')
            return
        if not (1e-250 < abs(want) < 1e250):
            ctx.ev('skip', 'roundtrip')
            return
        x = np.array(op['values'], dtype=float).reshape(op['shape'])
        dt = op.get('dtype', 'float')
        rt_ulp = RT_ULP
        if dt == 'complex' and len(op.get('imag', [])) == x.size:
            return self._roundtrip_complex(ctx, st, op, x, want, s)
        if dt == 'int' and np.all(x == np.round(x)):
            # whole numbers handed over with an integer dtype (np.arange, counts, Miller indices times a spacing ...)
            xi = x.astype(int)
            given = xi.tolist() if op['as_list'] else (xi if op['shape'] else int(xi))
            ctx.probe('integer_dtype_value')
        elif dt == 'float32' and op['shape'] and not op['as_list']:
            x = x.astype(np.float32).astype(float)
            given = x.astype(np.float32)
            rt_ulp = None                   # single precision in, single precision tolerance
        else:
            given = x.tolist() if op['as_list'] else (x if op['shape'] else float(x))
        keep = np.array(given, copy=True) if isinstance(given, np.ndarray) else None
        w = ctx.must('C09.K1', uc.set_in_units, given, expr, klass='set_in_units')
        if np.asarray(w).shape == x.shape and np.all(np.isfinite(x)):
            wa = np.asarray(w, dtype=float)
            if not np.all(np.abs(wa - x * want) <= (1e-6 if rt_ulp is None else 1e-12 + 1.5 * s) * np.abs(x * want)):
                raise Violation('C09.K1', {'what': 'set_in_units(x, u) is not x times the unit', 'x': x, 'got': wa, 'expr': expr,
                                           'dtype_in': dt}, klass='set/value/' + dt)
        back = ctx.must('C09.K1', uc.get_in_units, w, expr, klass='get_in_units')
        back = np.asarray(back, dtype=float)
        if keep is not None and not np.array_equal(keep, given):
            raise Violation('C09.K1', {'what': 'the caller\'s array was changed by the conversion', 'before': keep, 'after': np.asarray(given)},
                            klass='rt/operand')
        if back.shape != x.shape:
            raise Violation('C09.K1', {'what': 'round trip changed the shape', 'got': list(back.shape), 'want': list(x.shape)}, klass='rt/shape')
        for a, b in zip(back.reshape(-1), x.reshape(-1)):
            if (rt_ulp is None and abs(a - b) > 1e-6 * abs(b)) or (rt_ulp is not None and ulps(a, b) > rt_ulp):
                raise Violation('C09.K1', {'what': 'get(set(x,u),u) != x', 'x': float(b), 'got': float(a), 'expr': expr, 'ulps': ulps(a, b)},
                                klass='rt/value')
        if op['shape']:
            ctx.probe('array_roundtrip')
        ctx.ev('op', 'roundtrip', {'expr': expr, 'x': x})

    def _roundtrip_complex(self, ctx, st, op, x, want, s):
        expr = op['expr']
        z = x + 1j * np.array(op['imag'], dtype=float).reshape(op['shape'])
        given = z.tolist() if op['as_list'] else (z if op['shape'] else complex(z))
        keep = np.array(given, copy=True) if isinstance(given, np.ndarray) else None
        w = ctx.must('C09.K1', uc.set_in_units, given, expr, klass='set_in_units/complex')
        wa = np.asarray(w)
        if wa.shape != z.shape:
            raise Violation('C09.K1', {'what': 'round trip changed the shape', 'got': list(wa.shape), 'want': list(z.shape)}, klass='rt/shape')
        wa = wa.astype(complex)
        for part, name in ((np.real, 'real'), (np.imag, 'imaginary')):
            if not np.all(np.abs(part(wa) - part(z) * want) <= (1e-12 + 1.5 * s) * np.abs(part(z) * want)):
                raise Violation('C09.K1', {'what': 'set_in_units(z, u) is not z times the unit (%s part)' % name, 'z': z, 'got': wa, 'expr': expr},
                                klass='set/value/complex')
        back = np.asarray(ctx.must('C09.K1', uc.get_in_units, w, expr, klass='get_in_units/complex')).astype(complex)
        if keep is not None and not np.array_equal(keep, given):
            raise Violation('C09.K1', {'what': 'the caller\'s array was changed by the conversion', 'before': keep, 'after': np.asarray(given)},
                            klass='rt/operand')
        if back.shape != z.shape:
            raise Violation('C09.K1', {'what': 'round trip changed the shape', 'got': list(back.shape), 'want': list(z.shape)}, klass='rt/shape')
        for a, b in zip(back.reshape(-1), z.reshape(-1)):
            if ulps(a.real, b.real) > RT_ULP or ulps(a.imag, b.imag) > RT_ULP:
                raise Violation('C09.K1', {'what': 'get(set(z,u),u) != z', 'z': complex(b), 'got': complex(a), 'expr': expr}, klass='rt/value/complex')
        ctx.probe('complex_value_roundtrip')
        ctx.ev('op', 'roundtrip', {'expr': expr, 'z': z})

    def _parse(self, ctx, st, op):
        expr = op['expr']
        try:
            want, d, s = self._expect(st, expr)
        except (ut.ExprError, OverflowError, ZeroDivisionError, ValueError):
            ctx.ev('skip', 'parse')
            return 'skip'
        if isinstance(want, complex) or not (1e-250 < abs(want) < 1e250):
            ctx.ev('skip', 'parse')
            return 'skip'
        got = ctx.must('C09.K2', uc.parse, expr, klass='parse/' + op.get('tag', ''), detail={'expr': expr})
        tol = PARSE_RTOL + 1.5 * s
        if not abs(got - want) <= tol * abs(want):
            raise Violation('C09.K2', {'what': 'parse(expr) differs from the independent evaluation', 'expr': expr, 'got': got, 'want': want,
                                       'rel': abs(got - want) / abs(want), 'base': list(st['base'])}, klass='parse/value/' + op.get('tag', ''))
        if op.get('tag') == 'pow':
            ctx.probe('precedence_pow_before_mul')
        if op.get('tag') == 'l2r':
            ctx.probe('precedence_left_to_right_div')
        if '((' in expr.replace(' ', '') or expr.count('(') >= 2:
            ctx.probe('nested_parens')
        if '\t' in expr or '\n' in expr:
            ctx.probe('whitespace_variants')
        ctx.ev('op', 'parse', {'expr': expr}, {'value': got})
        return '%s/p%d/pow%d/d%d' % (op.get('tag'), min(expr.count('('), 3), min(expr.count('^'), 2), min(expr.count('/'), 2))

    def _badexpr(self, ctx, st, op):
        """An expression the library cannot evaluate (unknown name, unbalanced parenthesis, stray sign), asked for several times by a
        caller that catches the error (a column of values with a misspelt unit).  The statement does not say what the answer is; it
        must be the same answer every time, and the next well-formed expression must evaluate as ever."""
        expr, via = op['expr'], op['via']
        fn = {'parse': lambda: uc.parse(expr), 'set': lambda: uc.set_in_units(98.6, expr), 'get': lambda: uc.get_in_units(98.6, expr),
              'literal': lambda: uc.set_literal('98.6 ' + expr)}[via]
        first = None
        for k in range(int(op['reps'])):
            ok, res = ctx.sut(fn)
            out = ('value', float(np.asarray(res, dtype=float).reshape(-1)[0])) if ok else ('raised', type(res).__name__)
            if first is None:
                first = out
            elif out != first:
                raise Violation('C09.K2', {'what': 'the same ill-formed request was answered differently when repeated', 'expr': expr, 'via': via,
                                           'first': list(first), 'repeat': k, 'now': list(out)}, klass='badexpr/inconsistent/' + via)
        ctx.fault('refused_expression')
        if first and first[0] == 'raised':
            ctx.probe('refused_expression_raised')
        # one expression, one verdict: what parse() refuses the conversion functions refuse, and what it evaluates they use
        okp, fp = ctx.sut(uc.parse, expr)
        oks, fs = ctx.sut(uc.set_in_units, 1.0, expr)
        okg, fg = ctx.sut(uc.get_in_units, 1.0, expr)
        if not (okp == oks == okg):
            raise Violation('C09.K2', {'what': 'parse, set_in_units and get_in_units disagree on whether an expression can be evaluated', 'expr': expr,
                                       'parse': okp, 'set_in_units': oks, 'get_in_units': okg}, klass='badexpr/verdicts-differ')
        if okp:
            fp, fs, fg = float(fp), float(fs), float(fg)
            if fp != 0 and np.isfinite(fp) and not (abs(fs - fp) <= 1e-12 * abs(fp) and abs(fg * fp - 1.0) <= 1e-12):
                raise Violation('C09.K2', {'what': 'an expression evaluates differently through parse and through the conversion functions',
                                           'expr': expr, 'parse': fp, 'set_in_units(1)': fs, 'get_in_units(1)': fg}, klass='badexpr/values-differ')
        self._parse(ctx, st, {'expr': op['then'], 'tag': 'after-refusal'})
        ctx.ev('op', 'badexpr', {'expr': expr, 'via': via, 'reps': op['reps']}, {'first': list(first) if first else None})
        return via

    def _convert(self, ctx, st, op):
        e1, e2 = op['e1'], op['e2']
        try:
            f1, d1, s1 = ut.evaluate(e1)
            f2, d2, s2 = ut.evaluate(e2)
        except ut.ExprError:
            ctx.ev('skip', 'convert')
            return
        if d1 != d2:
            ctx.ev('skip', 'convert')
            return
        x = op['x']
        got = ctx.must('C09.K3', lambda: uc.get_in_units(uc.set_in_units(x, e1), e2), klass='convert')
        got = float(got)
        want = x * f1 / f2
        if not abs(got - want) <= (1e-12 + 1.5 * (s1 + s2)) * abs(want):
            raise Violation('C09.K3', {'what': 'conversion differs from the ratio of SI factors', 'e1': e1, 'e2': e2, 'x': x, 'got': got,
                                       'want': want}, klass='convert/value')
        key = '%s|%s|%r' % (e1, e2, x)
        seen = st['conv'].get(key)
        if seen is not None and seen[1] != st['epochs']:
            ctx.probe('cross_epoch_compared')
            if not abs(got - seen[0]) <= 1e-12 * abs(seen[0]):
                raise Violation('C09.K3', {'what': 'same conversion gives different numbers in two epochs', 'e1': e1, 'e2': e2, 'x': x,
                                           'now': got, 'before': seen[0]}, klass='convert/epoch')
        if seen is None:
            st['conv'][key] = (got, st['epochs'])
        # also re-ask one earlier conversion of this run in the current epoch
        for k2, (v, ep) in sorted(st['conv'].items())[:2]:
            if ep != st['epochs']:
                a, b, xs = k2.split('|')
                g2 = float(ctx.must('C09.K3', lambda: uc.get_in_units(uc.set_in_units(float(xs), a), b), klass='convert'))
                ctx.probe('cross_epoch_compared')
                if not abs(g2 - v) <= 1e-12 * abs(v):
                    raise Violation('C09.K3', {'what': 'same conversion gives different numbers in two epochs', 'e1': a, 'e2': b,
                                               'x': float(xs), 'now': g2, 'before': v}, klass='convert/epoch')
        ctx.ev('op', 'convert', {'e1': e1, 'e2': e2, 'x': x}, {'value': got})

    def _literal(self, ctx, st, op):
        u = op['unit']
        term = op['value'] + (op['gap'] + u if u else '')
        import ast
        x = np.asarray(ast.literal_eval(op['value']), dtype=float)
        if u.strip():
            w, d, s = self._expect(st, u)
            ctx.probe('literal_with_unit')
        else:
            w, s = 1.0, 0.0
        first = ctx.must('C09.K2', uc.set_literal, term, klass='set_literal', detail={'term': term})
        if isinstance(first, np.ndarray) and first.ndim and first.flags.writeable:
            # the caller owns what it was handed: overwriting it must not change what the same literal means next time
            first[...] = 12345.678
            ctx.fault('scribble_on_literal_result')
            ctx.probe('scribble_on_literal_result')
        got = np.asarray(ctx.must('C09.K2', uc.set_literal, term, klass='set_literal', detail={'term': term}), dtype=float)
        want = x * w
        if got.shape != want.shape or not np.all(np.abs(got - want) <= (1e-12 + 1.5 * s) * np.abs(want)):
            raise Violation('C09.K2', {'what': 'set_literal differs from value * unit', 'term': term, 'got': got, 'want': want}, klass='literal/value')
        ctx.ev('op', 'literal', {'term': term})

    def _style(self, ctx, st, style):
        table = ctx.must('C09.K5', am.lammps.style.unit, style, klass='style.unit')
        for q, dim in STYLE_DIM.items():
            if q not in table:
                continue
            entry = table[q]
            if entry is None:
                continue
            try:
                f, d, s = ut.evaluate(entry)
            except ut.ExprError as e:
                raise Violation('C09.K5', {'what': 'style entry is not a unit expression', 'style': style, 'quantity': q, 'entry': entry,
                                           'error': str(e)}, klass='style/unparsable/%s' % ('lj-derived' if style == 'lj' else q))
            if tuple(d) != tuple(dim):
                raise Violation('C09.K5', {'what': 'style entry has the wrong dimension', 'style': style, 'quantity': q, 'entry': entry,
                                           'dimension': list(d), 'want': list(dim)}, klass='style/dimension')
            v = ctx.must('C09.K5', uc.parse, entry, klass='style/parse', detail={'entry': entry})
            want = ut.working_value(f, d, st['base'])
            if not abs(v - want) <= (1e-12 + 1.5 * s) * abs(want):
                raise Violation('C09.K5', {'what': 'style entry value differs from oracle', 'style': style, 'quantity': q, 'entry': entry,
                                           'got': v, 'want': want}, klass='style/value')
            st['style_obs'].setdefault((style, q), {})[st['epochs']] = (st['base'], v)
        ctx.ev('op', 'style', {'style': style})

    def _refused(self, ctx, st, op):
        what = op['what']
        before = dict(uc.unit)
        if what == 'five_named':
            ok, res = ctx.sut(uc.reset_units, length='nm', mass='kg', time='s', energy='eV', charge='e')
        elif what == 'seed_with_names':
            ok, res = ctx.sut(uc.reset_units, 7, length='nm')
        else:
            # an unknown name for any one of the five quantities, next to valid ones
            st['nrefused'] = st.get('nrefused', 0) + 1
            q = ('length', 'mass', 'time', 'energy', 'charge')[st['nrefused'] % 5]
            kw = {'length': 'nm', 'mass': 'amu', 'charge': 'e'}
            kw.pop(q, None)
            kw[q] = 'furlong'
            ok, res = ctx.sut(uc.reset_units, **kw)
        ctx.fault('refused_reset')
        ctx.ev('op', 'refused', {'what': what}, {'raised': (not ok) and type(res).__name__})
        if not ok:
            ctx.probe('refused_reset_raised')
            # a request that was refused chose nothing: the units chosen by the last successful request are still in force
            now = ut.base_of(nu)
            if tuple(now) != tuple(st['base']):
                raise Violation('C09.K4', {'what': 'a refused reset_units() changed the working units', 'case': what,
                                           'exception': type(res).__name__, 'base_before': list(st['base']), 'base_after': list(now)},
                                klass='refused-reset-changed-units/' + what)
        # (not refused: adopt what is in force now) the tables must be self-consistent and usable afterwards
        st['base'] = ut.base_of(nu)
        st['epochs'] += 1
        st['last_kind'] = 'refused'
        for name in ('m', 'kg', 's', 'C', 'eV', 'angstrom', 'GPa'):
            f, d, s = ut.UNITS[name]
            want = ut.working_value(f, d, st['base'])
            got = ctx.must('C09.K2', uc.parse, name, klass='parse-after-refusal')
            if not abs(got - want) <= 1e-12 * abs(want):
                raise Violation('C09.K2', {'what': 'unit table inconsistent after a refused reset', 'case': what, 'name': name, 'got': got,
                                           'want': want, 'raised': not ok}, klass='after-refusal/' + what)

    # ------------------------------------------------------------------
    def finish(self, ctx, st):
        # behavioural dimension fit: the exponent vector of each style entry, from its values in >= 6 epochs
        if st['epochs'] >= 2:
            for style in ('metal', 'real', 'electron'):
                self._fit_style(ctx, st, style)

    def _fit_style(self, ctx, st, style):
        saved = ut.base_of(nu)
        table = am.lammps.style.unit(style)
        obs = {}
        for seed in (101, 202, 303, 404, 505, 606, 707):
            uc.reset_units(seed)
            b = ut.base_of(nu)
            for q, dim in STYLE_DIM.items():
                e = table.get(q)
                if e is None:
                    continue
                obs.setdefault(q, []).append((np.log(b), math.log(uc.parse(e))))
        for q, rows in obs.items():
            A = np.array([np.append(lb, 1.0) for lb, _ in rows])
            y = np.array([v for _, v in rows])
            sol = np.linalg.lstsq(A, y, rcond=None)[0]
            if not np.all(np.abs(sol[:5] - np.array(STYLE_DIM[q], dtype=float)) <= 1e-6):
                raise Violation('C09.K5', {'what': 'fitted dimension of style entry differs from its label', 'style': style, 'quantity': q,
                                           'entry': table[q], 'fitted': sol[:5], 'want': list(STYLE_DIM[q])}, klass='style/fit')
        ctx.probe('style_fit_done')
        # leave the tables in a defined state
        uc.reset_units(length='angstrom', mass='amu', energy='eV', charge='e')

    def nontrivial(self, ctx):
        return ctx.changes >= 2 or sum(ctx.faults.values()) >= 1

    def simplify(self, op):
        out = []
        if op['op'] in ('parse', 'roundtrip'):
            e = op['expr']
            if e != e.strip():
                out.append(dict(op, expr=e.strip()))
            if any(c in e for c in '\t\n'):
                out.append(dict(op, expr=' '.join(e.split())))
        if op['op'] == 'roundtrip' and op['shape']:
            out.append(dict(op, shape=[], values=op['values'][:1]))
        return out
