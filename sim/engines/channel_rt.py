"""C08 — loading what was dumped returns the system.

The simulator sits on the channel between atomman's real writer and real
reader: it permutes atom lines, inserts what the format allows, removes required
sections, and chooses what kind of source delivers the bytes (text, path,
BytesIO, raw stream with short reads, buffered stream).  The oracle is the
system that was written, held as numpy arrays by the simulator, compared to the
printed precision propagated through the image-flag / bounds arithmetic.
"""

import copy
import io
import os
import shutil
import tempfile
import warnings

import numpy as np

from .. import channel, geom, streams
from .. import unit_table as ut
from ..kernel import Engine, Violation, sut_site
from .epochs_c09 import _RandomSeam

import atomman as am
import atomman.unitconvert as uc
import numericalunits as nu

EPS = np.finfo(float).eps
SAFETY = 8.0

FORMATS = ['%.5f', '%.8f', '%.13f', '%.6e', '%.13e', '%.15e', '%.10g']
UNIT_STYLES = ['metal', 'real', 'si', 'cgs', 'electron', 'micro', 'nano', 'lj']
# atom styles -> the per-atom properties the Atoms section needs (besides atype, pos)
STYLE_PROPS = {
    'atomic': [], 'charge': ['charge'], 'molecular': ['m_id'], 'bond': ['m_id'], 'angle': ['m_id'], 'full': ['m_id', 'charge'],
    'dipole': ['charge', 'mu'], 'sphere': ['diameter', 'density'], 'ellipsoid': ['eflag', 'density'],
    'electron': ['charge', 'espin', 'eradius'], 'meso': ['rho', 'e', 'cv'], 'body': ['bflag', 'mass'],
    'line': ['m_id', 'lflag', 'density'], 'tri': ['m_id', 'tflag', 'density'], 'template': ['m_id', 'm_template', 'a_template'],
    'wavepacket': ['charge', 'espin', 'eradius', 'e_id', 'cs_re', 'cs_im'],
    'hybrid charge sphere': ['charge', 'diameter', 'density'], 'hybrid molecular dipole': ['m_id', 'charge', 'mu'],
}
STYLE_VEL = {'electron': ['eradial_velocity'], 'ellipsoid': ['ang_momentum'], 'sphere': ['ang_velocity'],
             'hybrid charge sphere': ['ang_velocity']}
# property -> (trailing shape, class, positive?)
PINFO = {'charge': ((), 'f', False), 'm_id': ((), 'i', True), 'mu': ((3,), 'f', False), 'diameter': ((), 'f', True),
         'density': ((), 'f', True), 'eflag': ((), 'i', True), 'espin': ((), 'i', True), 'eradius': ((), 'f', True),
         'rho': ((), 'f', True), 'e': ((), 'f', False), 'cv': ((), 'f', True), 'bflag': ((), 'i', True), 'mass': ((), 'f', True),
         'lflag': ((), 'i', True), 'tflag': ((), 'i', True), 'm_template': ((), 'i', True), 'a_template': ((), 'i', True),
         'e_id': ((), 'i', True), 'cs_re': ((), 'f', False), 'cs_im': ((), 'f', False), 'velocity': ((3,), 'f', False),
         'eradial_velocity': ((), 'f', False), 'ang_momentum': ((3,), 'f', False), 'ang_velocity': ((3,), 'f', False),
         'force': ((3,), 'f', False), 'stress': ((3, 3), 'f', False), 'tag': ((), 'i', True), 'pe': ((), 'f', False),
         'disp': ((3,), 'f', False), 'radius': ((), 'f', True), 'torque': ((3,), 'f', False),
         # per-atom shapes with exactly one element that are not scalars
         'single': ((1,), 'f', False), 'cell11': ((1, 1), 'f', False),
         # the image-count columns ix iy iz of a LAMMPS dump, which the dump loader itself creates
         'boximage': ((3,), 'f', False)}
TABLE_UNITS = {'charge': ['e', 'C', 'C', '1e-3*C', None], 'velocity': ['angstrom/ps', 'm/s', None], 'force': ['eV/angstrom', 'nN', None],
               'stress': ['GPa', 'bar', None], 'pe': ['eV', 'kJ/mol', None], 'disp': ['angstrom', 'nm', 'scaled', None],
               'tag': [None], 'mass': ['amu', 'g/mol'], 'single': [None], 'cell11': [None]}
SYMS = ['Al', 'Cu', 'Fe', 'Ni', 'Mg']
TITLES = ['LAMMPS data file written by a test', '# comment title', 'title with 3 words', '   ', 'cell (generated)']


def W(unit, base):
    """Working-unit value of one `unit` in the epoch with the given base values."""
    if unit is None or unit == 'scaled':
        return 1.0
    f, d, s = ut.evaluate(unit)
    return ut.working_value(f, d, base)


class ChannelEngine(Engine):
    prop = 'C08'
    name = 'channel_rt'
    max_ops = 8
    expected_probes = ['reorder_atoms', 'reorder_velocities', 'noise_header_line', 'noise_row_comment', 'noise_title',
                       'loss_natoms', 'loss_bounds', 'loss_atoms_section', 'loss_atoms_section_velocities_kept', 'loss_velocity_rows', 'stream_source', 'short_read_source', 'path_source',
                       'imageflags_written', 'tilted_cell', 'nonperiodic_dims', 'gapped_types', 'random_epoch',
                       'compared_cells_above_resolution', 'chained_transfer', 'poscar_cartesian', 'poscar_box_scale',
                       'dump_scaled_columns', 'writer_prop_info_used', 'dest_path', 'dest_stream', 'table_with_id', 'io_error_load_raised', 'dump_two_position_forms', 'integer_typed_float_property', 'same_path_rewritten', 'system_with_own_atom_ids', 'poscar_rotated_cell', 'stream_positioned_past_an_earlier_frame', 'dump_explicit_no_conversion_for_a_standard_property', 'integer_beyond_2_53_carried', 'refused_dump_raised', 'refused_load_before_the_next']
    rule = ('Each run draws a working-unit epoch (atomman default or seeded random, so that unit-column mix-ups cannot hide behind '
            'factors of one) and performs up to 8 transfers. A transfer builds a system (or reuses the system loaded by the previous '
            'transfer): LAMMPS-compatible cell, orthogonal or tilted, any origin, 1-40 atoms inside / outside / on faces, 1-4 types '
            'with gaps, any periodicity, the per-atom properties the chosen atom style needs (18 atom styles incl. two hybrids) plus '
            'optional velocities and extra properties of shapes (), (3,), (3,3); writes it with real atomman (atom_data / atom_dump / '
            'table / poscar; 8 unit styles; 7 float formats; scaled / unwrapped dump columns; POSCAR direct / Cartesian with scale '
            'factor; destination returned / path / stream); perturbs the text on the channel (atom-line permutation where ids are '
            'present, blank lines, # comments, free title line, trailing comments on header and atom lines, loss of the "N atoms" '
            'line, a bounds line or the Atoms section); reads it back with real atomman from text / path / BytesIO / raw short-read '
            'stream / buffered stream; compares cell, count, types, positions, every carried property with its shape, periodic flags '
            'and symbols. A dump caller may name the file unit of every column itself (None = no conversion, also for LAMMPS-standard properties); integer identifiers use up to 63 bits. A removed section MUST raise FileFormatError. Torn files are not injected (the statement promises nothing). '
            'Non-trivial run: at least one perturbation or non-text source fired. distinct = distinct (style, atom style, unit style, '
            'perturbation set, source kind, destination, has-flags, tilted, non-periodic dims, format class) signatures.')
    tolerances = {'printed number': 'half a unit in the last printed place of its float format, in the file\'s own units',
                  'position from a data file': '8 * (u_pos + 2*u_box*|image flags|_1) + 32 eps * (|x| + |cell|*|flags|)',
                  'cell entries': '8 * 2 * u_box', 'scaled columns': 'u * sum|cell| + cell error * |relative coordinate|',
                  'ints, symbols, flags': 'exact', 'safety factor': SAFETY}
    real_components = ['atomman.dump: atom_data, atom_dump, table, poscar', 'atomman.load: atom_data, atom_dump, table, poscar',
                       'System.wrap / atoms_df / Box', 'atomman.lammps.style.unit', 'pandas read_csv / to_csv', 'uber_open_rmode']
    stub_components = ['the file in flight (channel perturbations)', 'the reader\'s source (path / stream kinds with short reads)',
                       'the working-unit epoch (random seam owned by the simulator)']
    assumptions = ['POSCAR transfers use origin (0,0,0): the format has no origin field',
                   'nothing is inserted inside a dump file or between the rows of a section: the formats forbid it',
                   'for a data file with non-periodic directions the expected cell is the cell after the documented wrap, taken from '
                   'System.wrap itself (its correctness is C05, not C08)',
                   'peri and smd atom styles are not generated: lammps.style.unit has no "volume" entry for them',
                   'a refused dump leaves a file or stream that holds (or will hold) a good dump as it is; what pandas leaves in a file it opened before failing is not promised and not tested', 'a broken file tried before a good one must not change how the good one loads']

    # ------------------------------------------------------------------
    def config(self, ctx):
        r = ctx.rng
        return {'nops': r.randint(1, 8), 'epoch': r.choice(['default', 'seed', 'seed', 'unseeded']), 'seed': r.getrandbits(31),
                'entropy': r.getrandbits(62), 'fault_free': r.random() < 0.2}

    def init(self, ctx, cfg):
        warnings.simplefilter('ignore')
        if cfg['epoch'] == 'default':
            uc.reset_units(length='angstrom', mass='amu', energy='eV', charge='e')
        elif cfg['epoch'] == 'seed':
            uc.reset_units(cfg['seed'])
            ctx.probe('random_epoch')
        else:
            with _RandomSeam(cfg['entropy']):
                uc.reset_units()
            ctx.probe('random_epoch')
        base = ut.base_of(nu)
        ctx.ev('epoch', cfg['epoch'], None, {'base': list(base)})
        return {'cfg': cfg, 'base': base, 'cur': None, 'scratch': tempfile.mkdtemp(prefix='atomman-verif-c08.'), 'nfile': 0,
                'A': W('angstrom', base)}

    def cleanup(self, st):
        shutil.rmtree(st['scratch'], ignore_errors=True)
        uc.reset_units(length='angstrom', mass='amu', energy='eV', charge='e')

    # ------------------------------------------------------------------
    # generation
    def _gen_spec(self, ctx, fmt_style, props, zero_origin=False, ortho=None):
        r = ctx.rng
        V = geom.draw_tri_cell(r, 1.0) * r.uniform(1.0, 3.0)
        if ortho or (ortho is None and r.random() < 0.3):
            V = np.diag(np.diag(V))
        o = np.zeros(3) if zero_origin else geom.draw_origin(r, float(np.abs(V).max()))
        n = r.choice([1, 2, 3, 4, 5, 8, 12, 20, 40])
        rel = []
        for _ in range(n):
            k = r.random()
            if k < 0.6:
                p = [r.uniform(0.02, 0.98) for _ in range(3)]
            elif k < 0.9:
                p = [r.uniform(-1.6, 2.6) for _ in range(3)]
            else:
                p = [r.choice([0.0, 1.0, 0.5, r.uniform(0, 1)]) for _ in range(3)]
            rel.append(p)
        ntypes = r.randint(1, 4)
        used = sorted(r.sample(range(1, ntypes + 1), r.randint(1, ntypes)))
        if ntypes not in used:
            used.append(ntypes)          # natypes is the largest type present
        atype = [r.choice(used) for _ in range(n)]
        if max(atype) != ntypes:
            atype[r.randrange(n)] = ntypes
        pv = {}
        for nm in props:
            ts, cls, positive = PINFO[nm]
            cnt = n * (int(np.prod(ts)) if ts else 1)
            if cls == 'i' and nm == 'tag' and r.random() < 0.3:
                # identifiers that need all 64 bits (hashes, global ids of a large run): no float64 holds them
                pv[nm] = [r.choice([2 ** 53 + 1, 2 ** 60 + 7, 2 ** 62 + 12345, 9007199254740993, r.randint(1, 9)]) for _ in range(cnt)]
            elif cls == 'i':
                pv[nm] = [r.randint(0 if not positive else 1, 9) for _ in range(cnt)]
            elif nm == 'charge' and r.random() < (0.6 if fmt_style in ('table', 'atom_dump') else 0.25):
                pv[nm] = [r.randint(-3, 3) for _ in range(cnt)]         # whole charges: the array the caller builds is integer typed
            elif positive:
                pv[nm] = [r.uniform(0.2, 5.0) for _ in range(cnt)]
            else:
                pv[nm] = [r.choice([r.uniform(-5, 5), round(r.uniform(-5, 5), 2)]) for _ in range(cnt)]
        return {'V': V, 'origin': o, 'rel': rel, 'atype': atype, 'props': pv, 'pbc': [r.random() < 0.7 for _ in range(3)],
                'symbols': r.choice([None, [r.choice(SYMS) for _ in range(ntypes)]])}

    def _gen_plan(self, ctx, st, n, fault_free):
        r = ctx.rng
        plan = {}
        if fault_free:
            return plan
        if r.random() < 0.6:
            plan['perm_atoms'] = r.sample(range(n), n)
        if r.random() < 0.5:
            plan['perm_vel'] = r.sample(range(n), n)
        if r.random() < 0.5:
            plan['header_noise'] = [[r.randrange(8), r.choice(['', '# a comment', '   ', '#', '  # indented comment', '\t'])]
                                    for _ in range(r.randint(1, 4))]
        if r.random() < 0.3:
            plan['header_tail'] = [[r.randrange(6), '# ' + r.choice(['note', 'xlo xhi', '12 atoms'])] for _ in range(r.randint(1, 2))]
        if r.random() < 0.4:
            plan['row_comments'] = [r.randrange(max(1, n)) for _ in range(r.randint(1, 3))]
        if r.random() < 0.3:
            plan['title'] = r.choice(TITLES)
        if r.random() < 0.3:
            plan['between_noise'] = [r.choice(['', '# before velocities'])]
        if r.random() < 0.3:
            plan['tail_noise'] = [r.choice(['', '# end', '   '])]
        if r.random() < 0.15:
            plan['loss'] = r.choice(['natoms', 'xlo', 'ylo', 'zlo', 'atoms_section', 'atoms_only', 'velocity_rows', 'velocity_rows'])
        plan['tail_blank'] = r.choice([0, 0, 1, 3])
        return plan

    def gen(self, ctx, st):
        r = ctx.rng
        cfg = st['cfg']
        style = ctx.wchoice([('atom_data', 4), ('atom_dump', 3), ('table', 2), ('poscar', 2)])
        cur = st['cur']
        fresh = cur is None or r.random() < 0.5
        op = {'op': 'transfer', 'style': style, 'fmt': r.choice(FORMATS), 'dest': r.choice(['return', 'return', 'path', 'stream']),
              'src': r.choice(streams.SOURCE_KINDS), 'chunks': [r.choice([1, 2, 5, 17, 64, 4096]) for _ in range(4)],
              'bufsize': r.choice([1, 16, 512, 8192]), 'chain': r.random() < 0.6, 'same_path': r.random() < 0.5}
        if not cfg['fault_free']:
            op['refused_dump'] = r.random() < 0.25
            op['refused_load'] = r.choice([None, None, None, None, 'cut4', 'cut2', 'badnum'])
        if cfg['fault_free'] and op['src'] in ('chunked', 'buffered'):
            op['src'] = 'bytesio'
        if op['src'] in ('chunked', 'buffered') and r.random() < 0.2:
            # a bad byte under the reader: delivering it raises EIO (always, or only the first time)
            op['ioerr'] = {'u': r.random(), 'once': r.random() < 0.3}
        if style == 'atom_data':
            units = r.choice(UNIT_STYLES)
            astyle = r.choice(sorted(STYLE_PROPS))
            if units == 'electron' and any(p in ('density',) for p in STYLE_PROPS[astyle]):
                astyle = r.choice(['atomic', 'charge', 'electron', 'full', 'dipole'])
            if not fresh and not set(STYLE_PROPS[astyle]) <= set(cur['props']):
                ok = [a for a in sorted(STYLE_PROPS) if set(STYLE_PROPS[a]) <= set(cur['props'])]
                astyle = r.choice(ok)
            if units == 'electron' and 'density' in STYLE_PROPS[astyle]:
                units = 'metal'         # lammps.style.unit('electron') has no density entry
            vel = r.random() < 0.4
            need = list(STYLE_PROPS[astyle]) + ((['velocity'] + STYLE_VEL.get(astyle, [])) if vel else [])
            if not fresh:
                vel = 'velocity' in cur['props'] and set(STYLE_VEL.get(astyle, [])) <= set(cur['props'])
            op.update(units=units, atom_style=astyle, safecopy=r.random() < 0.5, give_style=r.choice(['arg', 'file', 'both']),
                      natypes_extra=r.choice([0, 0, 1]))
            props = need
        elif style == 'atom_dump':
            extra = r.sample(['charge', 'velocity', 'force', 'stress', 'tag', 'pe', 'm_id', 'mu', 'radius', 'torque', 'single', 'cell11',
                              'boximage'], r.randint(0, 4))
            op.update(units=r.choice(UNIT_STYLES[:-1]), posvar=r.choice(['pos', 'pos', 'spos', 'upos', 'supos', 'default', 'pos+upos', 'upos+pos', 'spos+pos', 'pos+supos']),
                      use_prop_info=r.random() < 0.5, own_ids=r.random() < 0.3, prefixed=r.random() < 0.25,
                      raw_units=(r.random() < 0.25) and [r.random() < 0.6 for _ in range(12)])
            props = extra
        elif style == 'table':
            extra = r.sample(['charge', 'velocity', 'force', 'stress', 'tag', 'pe', 'disp', 'single', 'cell11'], r.randint(0, 4))
            op.update(header=r.random() < 0.5, with_id=r.random() < 0.6,
                      tunits={nm: r.choice(TABLE_UNITS[nm]) for nm in sorted(extra)}, pos_unit=r.choice(['angstrom', 'nm', None, 'scaled']))
            props = extra
        else:
            op.update(coord=r.choice(['direct', 'Direct', 'cartesian', 'Cartesian', 'k-cart']), box_scale=r.choice([1.0, 1.0, 2.5, 0.5, 3.905]),
                      header=r.choice(['', 'a poscar title', 'Al4 # test']), give_symbols=r.choice(['system', 'arg', 'none']))
            props = []
        if fresh or (style == 'poscar' and float(np.abs(cur['origin']).max()) != 0.0):
            op['spec'] = self._gen_spec(ctx, style, props, zero_origin=(style == 'poscar'))
            if style == 'poscar' and r.random() < 0.3:
                # POSCAR stores three full vectors: the cell need not be in LAMMPS orientation (axes permuted or reversed)
                op['spec']['rot'] = r.randrange(len(geom.CUBE_ROTATIONS))
            n = len(op['spec']['atype'])
        else:
            op['spec'] = None
            n = cur['n']
        op['plan'] = self._gen_plan(ctx, st, n, cfg['fault_free'])
        if style != 'atom_data':
            op['plan'].pop('loss', None)
        return op

    # ------------------------------------------------------------------
    # building the input system (working units of this epoch)
    def _unit_of(self, nm, style_units):
        """File unit of a standard LAMMPS property under a unit style (from atomman's own table: used only to
        choose magnitudes and to convert printing resolution, never as the expected value)."""
        lu = am.lammps.style.unit(style_units)
        key = {'charge': 'charge', 'mu': 'dipole', 'diameter': 'length', 'density': 'density', 'eradius': 'length', 'mass': 'mass',
               'velocity': 'velocity', 'eradial_velocity': 'velocity', 'ang_momentum': 'ang-mom', 'ang_velocity': 'ang-vel',
               'force': 'force', 'radius': 'length'}.get(nm)
        if nm == 'torque':
            return None if lu['force'] is None else lu['force'] + '*' + lu['length']
        return lu.get(key) if key else None

    def _build(self, ctx, st, spec, style_units, tunits=None):
        A = st['A']
        V = np.array(spec['V'], dtype=float) * A
        if spec.get('rot') is not None:
            V = V @ geom.CUBE_ROTATIONS[int(spec['rot']) % len(geom.CUBE_ROTATIONS)].T
            ctx.probe('poscar_rotated_cell')
        o = np.array(spec['origin'], dtype=float) * A
        rel = np.array(spec['rel'], dtype=float).reshape(-1, 3)
        pos = rel @ V + o
        n = len(rel)
        props = {}
        for nm, vals in sorted(spec['props'].items()):
            ts, cls, _ = PINFO[nm]
            arr = np.array(vals).reshape((n,) + ts)
            if cls == 'f' and nm == 'charge' and arr.dtype.kind == 'i':
                # whole charges in working units, in the integer-typed array a caller gets from np.array([3, -1, 2])
                arr = arr.astype(int)
                ctx.probe('integer_typed_float_property')
            elif cls == 'f':
                unit = (tunits or {}).get(nm, None) if tunits is not None else self._unit_of(nm, style_units)
                if unit == 'scaled':
                    unit = 'angstrom'
                arr = arr.astype(float) * W(unit, st['base'])
            else:
                arr = arr.astype(int)
            props[nm] = arr
        atoms = am.Atoms(atype=np.array(spec['atype'], dtype=int), pos=pos.copy(), **{k: v.copy() for k, v in props.items()})
        box = am.Box(vects=V, origin=o)
        kw = {}
        if spec['symbols'] is not None:
            kw['symbols'] = list(spec['symbols'])
        system = am.System(atoms=atoms, box=box, pbc=[bool(x) for x in spec['pbc']], **kw)
        state = {'n': n, 'V': V, 'origin': o, 'pos': pos, 'atype': np.array(spec['atype'], dtype=int), 'props': props,
                 'pbc': [bool(x) for x in spec['pbc']], 'symbols': list(system.symbols), 'real': system}
        return state

    # ------------------------------------------------------------------
    def apply(self, ctx, st, op):
        style = op['style']
        ctx.op(style)
        if op['spec'] is not None:
            tun = op.get('tunits') if style == 'table' else None
            cur = self._build(ctx, st, op['spec'], op.get('units', 'metal'), tun)
        else:
            cur = st['cur']
            if cur is None:
                ctx.ev('skip', 'transfer')
                return
            ctx.probe('chained_transfer')
        if style == 'poscar' and float(np.abs(cur['origin']).max()) != 0.0:
            ctx.ev('skip', 'transfer')
            return
        if op.get('refused_load') and style != 'table':
            # somebody else's broken file is tried first (cut inside its header, or with a malformed number): whatever that
            # call does, it must not change what the next load of a good file returns
            stub = {'poscar': 'broken cell\n1.0\n4.05 0.0 0.0\n0.0 4.05 0.0\n0.0 0.0 4.05\nAl\n4\nDirect\n',
                    'atom_data': 'broken data file\n\n4 atoms\n1 atom types\n0.0 4.05 xlo xhi\n0.0 4.05 ylo yhi\n0.0 4.05 zlo zhi\n\nAtoms\n\n',
                    'atom_dump': 'ITEM: TIMESTEP\n0\nITEM: NUMBER OF ATOMS\n4\nITEM: BOX BOUNDS pp pp pp\n0.0 4.05\n0.0 4.05\n0.0 4.05\n'}[style]
            how = op['refused_load']
            lines = stub.split('\n')
            if how == 'cut4':
                stub = '\n'.join(lines[:4]) + '\n'
            elif how == 'cut2':
                stub = '\n'.join(lines[:2]) + '\n'
            else:
                stub = stub.replace('4.05', '4.o5', 1)
            ctx.sut(am.load, style, stub)
            ctx.fault('refused_load')
            ctx.probe('refused_load_before_the_next')
        fn = getattr(self, '_t_' + style)
        out = fn(ctx, st, cur, op)
        if out is not None and op['chain']:
            st['cur'] = out
        elif out is not None and st['cur'] is None:
            st['cur'] = out

    # -- destinations and sources
    def _write(self, ctx, st, system, style, op, kw, clause='C08.W'):
        """Runs the real writer through the requested destination; returns (text, extra returns)."""
        dest = op['dest']
        klass = 'dump/%s/%s' % (style, dest)
        if dest == 'return':
            res = ctx.must(clause, system.dump, style, klass=klass, **kw)
        elif dest == 'path':
            st['nfile'] += 1
            p = os.path.join(st['scratch'], 'w%d.txt' % st['nfile'])
            res = ctx.must(clause, system.dump, style, f=p, klass=klass, **kw)
            if op.get('refused_dump'):
                # a second, ill-formed request for the same file is refused: the file must still hold the first dump
                self._refused_dump(ctx, system, style, p, kw)
            with open(p, encoding='UTF-8') as f:
                text = f.read()
            ctx.probe('dest_path')
            return text, res
        else:
            buf = io.StringIO()
            if op.get('refused_dump'):
                # the refused request comes first, the corrected one goes into the same open stream
                self._refused_dump(ctx, system, style, buf, kw)
            res = ctx.must(clause, system.dump, style, f=buf, klass=klass, **kw)
            ctx.probe('dest_stream')
            return buf.getvalue(), res
        if isinstance(res, tuple):
            return res[0], res[1:] if len(res) > 2 else res[1]
        return res, None

    def _refused_dump(self, ctx, system, style, f, kw):
        self._nref = getattr(ctx, 'nref', 0) + 1
        ctx.nref = self._nref               # per run
        bad = dict(kw)
        bad.pop('return_prop_info', None)
        if style == 'poscar':
            bad['symbols'] = ['Al'] * (system.natypes + 2)              # as many symbols as types are needed
        elif style == 'atom_data':
            bad['units'] = 'no_such_units'
        elif style == 'atom_dump' and self._nref % 2:
            bad['lammps_units'] = 'no_such_units'
        elif self._nref % 2 or style == 'atom_dump':
            bad['float_format'] = '%.8f %.8f %.8f'                      # three conversions for one number: pandas refuses it
        else:
            bad.pop('prop_info', None)
            bad['prop_name'] = ['atype', 'pos']
            bad['unit'] = [None]                                        # one unit for two properties
        # (a copy of the system: writers called with safecopy=False may wrap the system they are given, refused or not;
        # with safecopy=True the caller's own system is used - it is documented to come back untouched)
        target = system if (style == 'atom_data' and bad.get('safecopy') is True) else copy.deepcopy(system)
        if 'float_format' in bad and bad['float_format'] == '%.8f %.8f %.8f':
            # pandas opens its target before it formats anything: what a failed to_csv leaves in a file is pandas' business and
            # not promised by anybody, so this refusal is asked for as a returned string; the NEXT dump must work as ever
            ok, res = ctx.sut(target.dump, style, **bad)
        else:
            ok, res = ctx.sut(target.dump, style, f=f, **bad)
        ctx.fault('refused_dump')
        if not ok:
            ctx.probe('refused_dump_raised')

    def _source(self, ctx, st, text, op, prefix=None):
        st['nfile'] += 1
        if prefix and op['src'] in ('bytesio', 'chunked', 'buffered'):
            # the stream holds something else first (an earlier frame) and is handed over positioned at the frame to load
            obj, closer, raw = streams.make_source(op['src'], prefix + text, st['scratch'], 'p%d.txt' % st['nfile'], op['chunks'], op['bufsize'])
            obj.seek(len(prefix.encode('utf-8')))
            st['last_raw'] = raw
            ctx.probe('stream_positioned_past_an_earlier_frame')
            ctx.probe('stream_source')
            ctx.fault('stream_source')
            return obj, closer
        fail_at = None
        io = op.get('ioerr')
        if io and op['src'] in ('chunked', 'buffered') and not (op.get('plan') or {}).get('loss'):
            nb = len(text.encode('utf-8'))
            if nb:
                fail_at = min(nb - 1, int(io['u'] * nb))
        # half of the path sources re-use ONE file name per run: what is loaded must be what the file holds now
        fname = 'again.txt' if (op['src'] == 'path' and op.get('same_path')) else 'r%d.txt' % st['nfile']
        if fname == 'again.txt' and st.get('again_used'):
            ctx.probe('same_path_rewritten')
        if fname == 'again.txt':
            st['again_used'] = True
        obj, closer, raw = streams.make_source(op['src'], text, st['scratch'], fname, op['chunks'], op['bufsize'],
                                               fail_at=fail_at, fail_once=bool(io and io.get('once')))
        st['last_raw'] = raw
        if op['src'] == 'path':
            ctx.probe('path_source')
        if op['src'] in ('bytesio', 'chunked', 'buffered'):
            ctx.probe('stream_source')
            ctx.fault('stream_source')
        if op['src'] in ('chunked', 'buffered'):
            ctx.probe('short_read_source')
            ctx.fault('short_read_source')
        return obj, closer

    @staticmethod
    def _kappa(V):
        """Rounding of a Cartesian -> box-relative -> Cartesian trip grows with the condition number of the cell
        (rel = (x - o) V^-1 loses eps*|x - o|*|V^-1|, multiplying back by V gives eps*(|x|+|o|)*cond(V))."""
        return max(1.0, float(np.linalg.cond(np.asarray(V, dtype=float))))

    def _io_failed(self, ctx, st, ok):
        """True when the reader's stream raised EIO during this load and the load failed: a load may fail on a disk
        error, it may never return a wrong system (a load that returns is compared as usual)."""
        raw = st.get('last_raw')
        fired = raw is not None and getattr(raw, 'io_errors', 0) > 0
        if fired:
            ctx.fault('io_error_under_reader')
            ctx.probe('io_error_load_' + ('raised' if not ok else 'completed'))
        return fired and not ok

    def _fired(self, ctx, fired):
        for f in fired:
            ctx.probe(f)
            ctx.fault(f)
        return tuple(sorted(set(fired)))

    # -- comparison
    def _cmp_float(self, ctx, name, got, want, tol, clause, klass, detail=None):
        got = np.asarray(got)
        want = np.asarray(want, dtype=float)
        if got.shape != want.shape:
            raise Violation(clause, {'what': 'shape of %s' % name, 'got': list(got.shape), 'want': list(want.shape)}, klass='shape/' + klass)
        if got.dtype.kind not in 'fiu':
            raise Violation(clause, {'what': '%s is not numeric' % name, 'dtype': str(got.dtype)}, klass='dtype/' + klass)
        err = np.abs(got.astype(float) - want)
        tol = np.broadcast_to(np.asarray(tol, dtype=float), want.shape)
        if np.any(err > tol):
            i = int(np.argmax(err - tol))
            d = {'what': '%s differs beyond the printed precision' % name, 'got': float(got.reshape(-1)[i]), 'want': float(want.reshape(-1)[i]),
                 'err': float(err.reshape(-1)[i]), 'tol': float(tol.reshape(-1)[i]), 'flat_index': i}
            if detail:
                d.update(detail)
            raise Violation(clause, d, klass='value/' + klass)

    def _resolution_probe(self, ctx, want_file, u):
        want_file = np.abs(np.asarray(want_file, dtype=float))
        n = int(np.sum(want_file > 100 * np.maximum(u, 1e-300)))
        if n:
            ctx.probe('compared_cells_above_resolution', n)

    @staticmethod
    def _eff_fmt(fmt, lengths_file):
        """A fixed-point format that cannot resolve the cell (e.g. %.5f for a cell of 3e-10 m) does not describe a
        system at all; such a request is replaced by %.13e.  'To the printed precision' needs something printed."""
        if fmt.endswith('f'):
            n = int(fmt[2:-1])
            if float(np.min(np.abs(lengths_file))) < 1e4 * 10.0 ** (-n):
                return '%.13e'
        return fmt

    def _u(self, fmt, x_file):
        x = np.asarray(x_file, dtype=float)
        return np.vectorize(lambda v: channel.fmt_err(fmt, v))(x) if x.size else x

    def _check_common(self, ctx, cur, got, klass, box_tol, symbols_expected, pbc_expected, Vexp, oexp):
        if got.natoms != cur['n']:
            raise Violation('C08.L1', {'what': 'atom count', 'got': got.natoms, 'want': cur['n']}, klass='natoms/' + klass)
        gt = np.asarray(got.atoms.view['atype'])
        if gt.shape != (cur['n'],) or not np.array_equal(gt, cur['atype']):
            raise Violation('C08.L2', {'what': 'atom types', 'got': gt, 'want': cur['atype']}, klass='atype/' + klass)
        self._cmp_float(ctx, 'cell vectors', got.box.vects, Vexp, box_tol, 'C08.L3', 'cell/' + klass)
        self._cmp_float(ctx, 'cell origin', got.box.origin, oexp, box_tol, 'C08.L3', 'origin/' + klass)
        if pbc_expected is not None and [bool(x) for x in got.pbc] != list(pbc_expected):
            raise Violation('C08.L6', {'what': 'periodic flags', 'got': [bool(x) for x in got.pbc], 'want': list(pbc_expected)}, klass='pbc/' + klass)
        if symbols_expected is not None:
            gs = list(got.symbols)
            ws = list(symbols_expected)
            ws = ws + [None] * max(0, len(gs) - len(ws))
            if gs != ws:
                raise Violation('C08.L6', {'what': 'symbols', 'got': gs, 'want': ws}, klass='symbols/' + klass)

    def _state_of(self, got, cur_props=None):
        s = {'n': got.natoms, 'V': got.box.vects, 'origin': got.box.origin, 'pos': np.array(got.atoms.view['pos'], dtype=float),
             'atype': np.array(got.atoms.view['atype'], dtype=int), 'pbc': [bool(x) for x in got.pbc], 'symbols': list(got.symbols),
             'real': got, 'props': {}}
        for k in got.atoms.view:
            if k not in ('atype', 'pos'):
                s['props'][k] = np.array(got.atoms.view[k])
        return s

    # ------------------------------------------------------------------
    # LAMMPS data file
    def _t_atom_data(self, ctx, st, cur, op):
        base = st['base']
        units, astyle, fmt = op['units'], op['atom_style'], op['fmt']
        need = list(STYLE_PROPS[astyle])
        if not set(need) <= set(cur['props']):
            ctx.ev('skip', 'atom_data')
            return None
        vel = 'velocity' in cur['props'] and set(STYLE_VEL.get(astyle, [])) <= set(cur['props'])
        system = cur['real']
        if not geom.is_tri(system.box.vects):
            ctx.ev('skip', 'atom_data')
            return None
        before = copy.deepcopy(system) if op['safecopy'] else None
        fmt = self._eff_fmt(fmt, np.diag(cur['V']) / W(am.lammps.style.unit(units)['length'], base))
        kw = {'atom_style': astyle, 'units': units, 'float_format': fmt, 'safecopy': bool(op['safecopy'])}
        if op.get('natypes_extra'):
            kw['natypes'] = int(system.natypes) + int(op['natypes_extra'])
        # a system whose velocity group is incomplete for this atom style cannot be written with velocities
        if 'velocity' in cur['props'] and not vel:
            ctx.ev('skip', 'atom_data')
            return None
        text, info = self._write(ctx, st, system, 'atom_data', op, kw)
        lu = am.lammps.style.unit(units)
        Lw = W(lu['length'], base)
        # the unit each column is printed in, as the writer's own column table states it (hybrid styles use the metal
        # table for every column whatever `units` says; the loader does the same, so the round trip is unaffected)
        from atomman.dump.atom_data.atoms_prop_info import atoms_prop_info
        from atomman.dump.atom_data.velocities_prop_info import velocities_prop_info
        punit = {p['prop_name']: p.get('unit') for p in atoms_prop_info(astyle, units)}
        if vel:
            punit.update({p['prop_name']: p.get('unit') for p in velocities_prop_info(astyle, units)})
        Pw = W(punit.get('pos'), base)
        # the cell that was written: after the documented wrap (non-periodic directions enlarge the cell)
        if op['safecopy']:
            ref = copy.deepcopy(before)
            flags = ref.wrap(return_imageflags=True)
            if not (np.array_equal(system.atoms.view['pos'], before.atoms.view['pos']) and np.array_equal(system.box.vects, before.box.vects)):
                raise Violation('C08.W2', {'what': 'dump(safecopy=True) changed the system it was given'}, klass='safecopy/atom_data')
            Vexp, oexp = ref.box.vects, ref.box.origin
        else:
            Vexp, oexp = system.box.vects, system.box.origin
            relw = geom.cart_to_rel(cur['V'], cur['origin'], cur['pos'])
            flags = np.floor(relw) * np.array(cur['pbc'], dtype=float)
        pos_before, V_before, o_before = cur['pos'], cur['V'], cur['origin']
        if not op['safecopy']:
            # documented: without safecopy the system that was handed in is wrapped in place
            cur['pos'] = np.array(system.atoms.view['pos'], dtype=float)
            cur['V'], cur['origin'] = system.box.vects, system.box.origin
        if np.any(flags != 0):
            ctx.probe('imageflags_written')
        if not all(cur['pbc']):
            ctx.probe('nonperiodic_dims')
        if Vexp[1, 0] != 0 or Vexp[2, 0] != 0 or Vexp[2, 1] != 0:
            ctx.probe('tilted_cell')
        if len(set(cur['atype'].tolist())) < int(cur['atype'].max()):
            ctx.probe('gapped_types')
        plan = dict(op['plan'])
        ptext, fired = channel.perturb_data(text, plan)
        fired = self._fired(ctx, fired)
        src, closer = self._source(ctx, st, ptext, op)
        lkw = {'pbc': list(cur['pbc']), 'units': units}
        give = op['give_style']
        if give in ('arg', 'both'):
            lkw['atom_style'] = astyle
        if cur['symbols'] and any(s is not None for s in cur['symbols']):
            lkw['symbols'] = list(cur['symbols'])
        klass = 'atom_data/%s' % op['src']
        loss = plan.get('loss')
        try:
            ok, got = ctx.sut(am.load, 'atom_data', src, **lkw)
        finally:
            closer()
        ctx.ev('op', 'atom_data', {'units': units, 'atom_style': astyle, 'fmt': fmt, 'src': op['src'], 'dest': op['dest'], 'fired': list(fired),
                                   'n': cur['n']}, {'ok': ok, 'exc': (not ok) and type(got).__name__})
        sig = ('atom_data', astyle, units, fired, op['src'], op['dest'], bool(np.any(flags != 0)), bool(Vexp[1, 0] or Vexp[2, 0] or Vexp[2, 1]),
               tuple(cur['pbc']), fmt[-1], vel)
        ctx.sig(*sig)
        if fired or op['src'] != 'text':
            ctx.changes += 2
        if loss == 'velocity_rows' and 'loss_velocity_rows' not in fired:
            loss = None                     # the file had no Velocities section to cut
        if loss == 'velocity_rows':
            # the file stops right after the Velocities header: the velocities the header announces are not there
            if ok and 'velocity' not in got.atoms.view:
                raise Violation('C08.L7', {'what': 'a data file cut right after its Velocities header was loaded as a system without velocities',
                                           'natoms': got.natoms}, klass='loss-accepted/' + loss)
            return None
        if loss:
            if ok:
                raise Violation('C08.L7', {'what': 'data file lacking a required section was loaded', 'lost': loss, 'natoms': got.natoms},
                                klass='loss-accepted/' + loss)
            if type(got).__name__ != 'FileFormatError':
                raise Violation('C08.L7', {'what': 'data file lacking a required section raised something other than the format error',
                                           'lost': loss, 'exception': type(got).__name__, 'message': str(got)[:200]},
                                site=sut_site(got), klass='loss-wrong-exception/%s/%s' % (loss, type(got).__name__))
            return None
        if self._io_failed(ctx, st, ok):
            return None
        if not ok:
            raise Violation('C08.L0', {'what': 'loading what was dumped raised', 'exception': type(got).__name__, 'message': str(got)[:300],
                                       'fired': list(fired), 'src': op['src'], 'atom_style': astyle, 'units': units},
                            site=sut_site(got), klass='raise/%s/%s' % (klass, type(got).__name__))
        # tolerances, in working units
        box_file = np.concatenate([np.abs(Vexp).reshape(-1), np.abs(oexp), np.abs(oexp + np.diag(Vexp))]) / Lw
        u_box = float(np.max(self._u(fmt, box_file))) * Lw
        box_tol = SAFETY * 2 * u_box + 32 * EPS * float(np.abs(box_file).max()) * Lw
        sym = lkw.get('symbols')
        self._check_common(ctx, cur, got, klass, box_tol, sym, cur['pbc'], Vexp, oexp)
        wrapped = pos_before - flags @ V_before
        u_pos = self._u(fmt, wrapped / Pw) * Pw
        n1 = np.abs(flags).sum(axis=1)[:, None] + 3.0      # +3: an atom on a face may be wrapped either way by the writer
        pos_tol = SAFETY * (u_pos + 2 * u_box * n1) + 32 * EPS * (np.abs(pos_before) + float(np.abs(V_before).max()) * (n1 + 1) + float(np.abs(o_before).max()))
        self._cmp_float(ctx, 'positions', got.atoms.view['pos'], pos_before, pos_tol, 'C08.L4', 'pos/' + klass,
                        {'flags_present': bool(np.any(flags != 0)), 'fmt': fmt, 'units': units})
        self._resolution_probe(ctx, wrapped / Pw, u_pos / Pw)
        want_props = list(need) + ((['velocity'] + STYLE_VEL.get(astyle, [])) if vel else [])
        for nm in want_props:
            self._cmp_prop(ctx, st, nm, got, cur, punit.get(nm), fmt, klass)
        extra = sorted(set(got.atoms.view.keys()) - set(want_props) - {'atype', 'pos'})
        if extra:
            raise Violation('C08.L5', {'what': 'properties appeared that the file does not carry', 'extra': extra}, klass='extra/' + klass)
        if got.natypes < int(cur['atype'].max()):
            raise Violation('C08.L2', {'what': 'natypes'}, klass='natypes/' + klass)
        return self._state_of(got)

    def _cmp_prop(self, ctx, st, nm, got, cur, unit, fmt, klass):
        ts, cls, _ = PINFO.get(nm, ((), 'f', False))
        if nm not in got.atoms.view:
            raise Violation('C08.L5', {'what': 'carried property missing after load', 'property': nm}, klass='missing/%s/%s' % (nm, klass))
        g = np.asarray(got.atoms.view[nm])
        w = cur['props'][nm]
        if g.shape != w.shape:
            raise Violation('C08.L5', {'what': 'property shape', 'property': nm, 'got': list(g.shape), 'want': list(w.shape)},
                            klass='propshape/%s/%s' % (nm, klass))
        if w.dtype.kind in 'iu' and unit is None:
            # integers written as integers, no conversion: exact.  (An integer-typed property that is written through a unit
            # conversion - e.g. a charge that an earlier %.10g transfer rounded to whole numbers - is a float on the wire and
            # is held to the printed precision like any other float.)
            if int(np.abs(w).max(initial=0)) > 2 ** 53:
                ctx.probe('integer_beyond_2_53_carried')
            if not np.array_equal(g, w):
                raise Violation('C08.L5', {'what': 'integer property differs', 'property': nm, 'got': g, 'want': w}, klass='propvalue/%s/%s' % (nm, klass))
            return
        w = np.asarray(w, dtype=float)
        Uw = W(unit, st['base']) if unit != 'scaled' else 1.0
        u = self._u(fmt, w / Uw) * Uw
        tol = SAFETY * u + 32 * EPS * np.abs(w)
        self._cmp_float(ctx, 'property ' + nm, g, w, tol, 'C08.L5', 'prop/%s/%s' % (nm, klass), {'unit': unit, 'fmt': fmt})
        self._resolution_probe(ctx, w / Uw, u / Uw)

    # ------------------------------------------------------------------
    # LAMMPS dump file
    def _t_atom_dump(self, ctx, st, cur, op):
        base = st['base']
        units, fmt = op['units'], op['fmt']
        system = cur['real']
        if not geom.is_tri(system.box.vects):
            ctx.ev('skip', 'atom_dump')
            return None
        lu = am.lammps.style.unit(units)
        Lw = W(lu['length'], base)
        fmt = self._eff_fmt(fmt, np.diag(cur['V']) / Lw)
        names = sorted(cur['props'])
        posvar = op['posvar']
        kw = {'lammps_units': units, 'float_format': fmt, 'return_prop_info': True}
        if posvar != 'default':
            kw['prop_name'] = ['atom_id', 'atype'] + posvar.split('+') + names
            if '+' in posvar:
                ctx.probe('dump_two_position_forms')
        lastvar = posvar.split('+')[-1]
        own_ids = None
        if op.get('own_ids') and 'atom_id' not in cur['props']:
            # the system carries its own atom ids (as one loaded from a dump and thinned out does): ascending, not 1..N
            own_ids = np.cumsum(1 + (np.arange(cur['n']) % 3 == 1).astype(int)) + 1
            system = copy.deepcopy(system)
            system.atoms.atom_id = own_ids
            if posvar == 'default':
                kw['prop_name'] = ['atom_id', 'atype', 'pos'] + names
            ctx.probe('system_with_own_atom_ids')
        STD = ('charge', 'velocity', 'force', 'mu', 'radius', 'torque', 'mass', 'diameter', 'ang_velocity', 'ang_momentum')
        raw = set()
        if op.get('raw_units') and posvar == 'default' and any(nm in STD for nm in names):
            # the caller names the file unit of every column itself; None is documented as "no conversion", also for a
            # property LAMMPS has a standard unit for.  Such a file can only be read with the writer's conversion table.
            flags = list(op['raw_units'])
            raw = {nm for k, nm in enumerate(nm2 for nm2 in names if nm2 in STD) if flags[k % len(flags)]}
            if raw:
                pn = ['atom_id', 'atype', 'pos'] + names
                kw['prop_name'] = pn
                kw['unit'] = [None, None, lu['length']] + [None if (nm in raw or nm not in STD) else self._unit_of(nm, units) for nm in names]
                ctx.probe('dump_explicit_no_conversion_for_a_standard_property')
        text, pinfo = self._write(ctx, st, system, 'atom_dump', op, kw)
        if isinstance(pinfo, tuple):
            pinfo = pinfo[0]
        if 'spos' in posvar or 'supos' in posvar:
            ctx.probe('dump_scaled_columns')
        V, o = cur['V'], cur['origin']
        if V[1, 0] != 0 or V[2, 0] != 0 or V[2, 1] != 0:
            ctx.probe('tilted_cell')
        if not all(cur['pbc']):
            ctx.probe('nonperiodic_dims')
        ptext, fired = channel.perturb_dump(text, op['plan'])
        fired = self._fired(ctx, fired)
        prefix = None
        if op.get('prefixed'):
            prefix = ('ITEM: TIMESTEP\n0\nITEM: NUMBER OF ATOMS\n1\nITEM: BOX BOUNDS pp pp pp\n0.0 1.0\n0.0 1.0\n0.0 1.0\n'
                      'ITEM: ATOMS id type x y z\n1 1 0.5 0.5 0.5\n')
        src, closer = self._source(ctx, st, ptext, op, prefix=prefix)
        shaped_nonstandard = any(PINFO.get(nm, ((),))[0] != () and nm not in ('velocity', 'force', 'mu', 'torque', 'boximage') for nm in names)
        use_pi = bool(op['use_prop_info']) or shaped_nonstandard or bool(raw)
        lkw = {'lammps_units': units}
        if use_pi:
            lkw['prop_info'] = pinfo
            ctx.probe('writer_prop_info_used')
        if cur['symbols'] and any(s is not None for s in cur['symbols']):
            lkw['symbols'] = list(cur['symbols'])
        klass = 'atom_dump/%s/%s' % (posvar, 'pi' if use_pi else 'auto')
        try:
            ok, got = ctx.sut(am.load, 'atom_dump', src, **lkw)
        finally:
            closer()
        ctx.ev('op', 'atom_dump', {'units': units, 'fmt': fmt, 'posvar': posvar, 'src': op['src'], 'fired': list(fired), 'use_pi': use_pi},
               {'ok': ok, 'exc': (not ok) and type(got).__name__})
        ctx.sig('atom_dump', posvar, units, fired, op['src'], op['dest'], use_pi, bool(V[1, 0] or V[2, 0] or V[2, 1]), tuple(cur['pbc']), fmt[-1],
                tuple(names))
        if fired or op['src'] != 'text':
            ctx.changes += 2
        if self._io_failed(ctx, st, ok):
            return None
        if not ok:
            raise Violation('C08.L0', {'what': 'loading what was dumped raised', 'exception': type(got).__name__, 'message': str(got)[:300],
                                       'src': op['src'], 'posvar': posvar, 'use_prop_info': use_pi},
                            site=sut_site(got), klass='raise/%s/%s/%s' % (klass, op['src'] if op['src'] in ('bytesio', 'chunked', 'buffered') else 'text-or-path',
                                                                       type(got).__name__))
        bnd = np.concatenate([np.abs(V).reshape(-1), np.abs(o), np.abs(o + np.diag(V)),
                              [abs(o[0]) + abs(V[0, 0]) + abs(V[1, 0]) + abs(V[2, 0])]]) / Lw
        u_box = float(np.max(self._u(fmt, bnd))) * Lw
        box_tol = SAFETY * 4 * u_box + 64 * EPS * float(bnd.max()) * Lw
        self._check_common(ctx, cur, got, klass, box_tol, lkw.get('symbols'), cur['pbc'], V, o)
        if lastvar in ('spos', 'supos'):
            rel = geom.cart_to_rel(V, o, cur['pos'])
            u_s = self._u(fmt, rel)
            colsum = np.abs(V).sum(axis=0)[None, :]
            pos_tol = SAFETY * (u_s.max(axis=1)[:, None] * colsum + 4 * u_box * (np.abs(rel).sum(axis=1)[:, None] + 1)) + 64 * EPS * self._kappa(V) * (np.abs(cur['pos']) + colsum + float(np.abs(o).max()))
        else:
            u_p = self._u(fmt, cur['pos'] / Lw) * Lw
            pos_tol = SAFETY * u_p + 32 * EPS * np.abs(cur['pos'])
            self._resolution_probe(ctx, cur['pos'] / Lw, u_p / Lw)
        self._cmp_float(ctx, 'positions', got.atoms.view['pos'], cur['pos'], pos_tol, 'C08.L4', 'pos/' + klass, {'fmt': fmt, 'units': units})
        for nm in names:
            if nm == 'boximage':
                # written box-relative by the dump writer and converted back by the loader, like a scaled position
                w = cur['props'][nm]
                rel = geom.cart_to_rel(V, o, w)
                u_s = self._u(fmt, rel)
                colsum = np.abs(V).sum(axis=0)[None, :]
                tol = (SAFETY * (u_s.max(axis=1)[:, None] * colsum + 4 * u_box * (np.abs(rel).sum(axis=1)[:, None] + 1))
                       + 64 * EPS * self._kappa(V) * (np.abs(w) + colsum + float(np.abs(o).max())))
                if nm not in got.atoms.view:
                    raise Violation('C08.L5', {'what': 'carried property missing after load', 'property': nm}, klass='missing/%s/%s' % (nm, klass))
                self._cmp_float(ctx, 'property ' + nm, got.atoms.view[nm], w, tol, 'C08.L5', 'prop/%s/%s/scaled' % (nm, klass))
                continue
            unit = self._unit_of(nm, units) if (nm in STD and nm not in raw) else None
            self._cmp_prop(ctx, st, nm, got, cur, unit, fmt, klass)
        if own_ids is not None:
            gid = got.atoms.view.get('atom_id')
            if gid is None or not np.array_equal(np.asarray(gid), own_ids):
                raise Violation('C08.L5', {'what': 'the atom ids the system carried are not the ids that came back', 'want': own_ids,
                                           'got': None if gid is None else np.asarray(gid)}, klass='propvalue/atom_id/' + klass)
        extra = sorted(set(got.atoms.view.keys()) - set(names) - {'atype', 'pos', 'atom_id'})
        if extra:
            raise Violation('C08.L5', {'what': 'properties appeared that the file does not carry', 'extra': extra}, klass='extra/' + klass)
        out = self._state_of(got)
        out['props'].pop('atom_id', None)
        if 'atom_id' in got.atoms.view:
            # keep the loaded system free of the id column so that it can be written by any style again
            a = got.atoms
            newa = am.Atoms(atype=a.atype.copy(), pos=a.pos.copy(), **{k: np.array(a.view[k]) for k in a.view if k not in ('atype', 'pos', 'atom_id')})
            out['real'] = am.System(atoms=newa, box=got.box, pbc=got.pbc, symbols=got.symbols)
        return out

    # ------------------------------------------------------------------
    # generic table
    def _t_table(self, ctx, st, cur, op):
        fmt = op['fmt']
        system = cur['real']
        names = sorted(cur['props'])
        tun = dict(op.get('tunits') or {})
        fmt = self._eff_fmt(fmt, np.diag(cur['V']) / W(op['pos_unit'], st['base']))
        prop_name = ['atype', 'pos'] + names
        unit = [None, op['pos_unit']] + [tun.get(nm) for nm in names]
        for nm, u in zip(prop_name, unit):
            if u == 'scaled' and PINFO.get(nm, ((3,),))[0] != (3,) and nm != 'pos':
                unit[prop_name.index(nm)] = None
        if op['with_id']:
            pi = [{'prop_name': 'a_id', 'table_name': 'id'}]
            for nm, u in zip(prop_name, unit):
                d = {'prop_name': nm, 'unit': u, 'shape': tuple(system.atoms.view[nm].shape[1:])}
                pi.append(d)
            kw = {'prop_info': pi}
            ctx.probe('table_with_id')
        else:
            kw = {'prop_name': prop_name, 'unit': unit}
        kw.update(float_format=fmt, header=bool(op['header']), return_prop_info=True)
        text, pinfo = self._write(ctx, st, system, 'table', op, kw)
        if isinstance(pinfo, tuple):
            pinfo = pinfo[0]
        ptext, fired = channel.perturb_table(text, op['plan'], bool(op['header']), bool(op['with_id']))
        fired = self._fired(ctx, fired)
        src, closer = self._source(ctx, st, ptext, op)
        box = am.Box(vects=cur['V'], origin=cur['origin'])
        lkw = {'box': box, 'prop_info': pinfo}
        if op['header']:
            lkw['header'] = 0
        if cur['symbols'] and any(s is not None for s in cur['symbols']):
            lkw['symbols'] = list(cur['symbols'])
        klass = 'table/%s' % ('id' if op['with_id'] else 'noid')
        try:
            ok, got = ctx.sut(am.load, 'table', src, **lkw)
        finally:
            closer()
        ctx.ev('op', 'table', {'fmt': fmt, 'src': op['src'], 'fired': list(fired), 'units': unit}, {'ok': ok, 'exc': (not ok) and type(got).__name__})
        ctx.sig('table', tuple(str(u) for u in unit), fired, op['src'], op['dest'], bool(op['header']), bool(op['with_id']), fmt[-1])
        if fired or op['src'] != 'text':
            ctx.changes += 2
        if self._io_failed(ctx, st, ok):
            return None
        if not ok:
            raise Violation('C08.L0', {'what': 'loading what was dumped raised', 'exception': type(got).__name__, 'message': str(got)[:300],
                                       'src': op['src']}, site=sut_site(got), klass='raise/%s/%s' % (klass, type(got).__name__))
        self._check_common(ctx, cur, got, klass, 64 * EPS * float(np.abs(cur['V']).max() + np.abs(cur['origin']).max()), lkw.get('symbols'), None,
                           cur['V'], cur['origin'])
        V, o = cur['V'], cur['origin']
        pu = op['pos_unit']
        if pu == 'scaled':
            rel = geom.cart_to_rel(V, o, cur['pos'])
            u_s = self._u(fmt, rel)
            colsum = np.abs(V).sum(axis=0)[None, :]
            pos_tol = SAFETY * u_s.max(axis=1)[:, None] * colsum + 64 * EPS * self._kappa(V) * (np.abs(cur['pos']) + colsum + float(np.abs(o).max()))
        else:
            Uw = W(pu, st['base'])
            u_p = self._u(fmt, cur['pos'] / Uw) * Uw
            pos_tol = SAFETY * u_p + 32 * EPS * np.abs(cur['pos'])
            self._resolution_probe(ctx, cur['pos'] / Uw, u_p / Uw)
        self._cmp_float(ctx, 'positions', got.atoms.view['pos'], cur['pos'], pos_tol, 'C08.L4', 'pos/%s/%s' % (klass, 'scaled' if pu == 'scaled' else 'unit'),
                        {'fmt': fmt, 'pos_unit': pu})
        for nm, u in zip(prop_name[2:], unit[2:]):
            if u == 'scaled':
                w = cur['props'][nm]
                rel = geom.cart_to_rel(V, o, w)
                u_s = self._u(fmt, rel)
                colsum = np.abs(V).sum(axis=0)[None, :]
                tol = SAFETY * u_s.max(axis=1)[:, None] * colsum + 64 * EPS * self._kappa(V) * (np.abs(w) + colsum + float(np.abs(o).max()))
                self._cmp_float(ctx, 'property ' + nm, got.atoms.view[nm], w, tol, 'C08.L5', 'prop/%s/%s/scaled' % (nm, klass))
            else:
                self._cmp_prop(ctx, st, nm, got, cur, u, fmt, klass)
        return self._state_of(got)

    # ------------------------------------------------------------------
    # POSCAR
    def _t_poscar(self, ctx, st, cur, op):
        fmt = op['fmt']
        system = cur['real']
        V = cur['V']
        fmt = self._eff_fmt(fmt, np.array([np.linalg.norm(V[i]) for i in range(3)]) / float(op['box_scale']))
        kw = {'header': op['header'], 'coordstyle': op['coord'], 'box_scale': float(op['box_scale']), 'float_format': fmt}
        nt = int(cur['atype'].max())
        sysm = list(cur['symbols'])
        have_sym = len(sysm) == nt and all(s is not None for s in sysm)
        give = op['give_symbols']
        wrote_symbols = None
        if give == 'arg':
            kw['symbols'] = [SYMS[i % len(SYMS)] for i in range(nt)]
            if nt != int(system.natypes):
                kw.pop('symbols')
            else:
                wrote_symbols = list(kw['symbols'])
        if wrote_symbols is None and have_sym and len(sysm) == int(system.natypes):
            wrote_symbols = list(sysm)
        text, _ = self._write(ctx, st, system, 'poscar', op, kw)
        if op['coord'][0] in 'cCkK':
            ctx.probe('poscar_cartesian')
        if op['box_scale'] != 1.0:
            ctx.probe('poscar_box_scale')
        if len(set(cur['atype'].tolist())) < nt:
            ctx.probe('gapped_types')
        ptext, fired = channel.perturb_poscar(text, op['plan'])
        fired = self._fired(ctx, fired)
        src, closer = self._source(ctx, st, ptext, op)
        klass = 'poscar/%s' % ('cart' if op['coord'][0] in 'cCkK' else 'direct')
        try:
            ok, got = ctx.sut(am.load, 'poscar', src)
        finally:
            closer()
        ctx.ev('op', 'poscar', {'fmt': fmt, 'coord': op['coord'], 'box_scale': op['box_scale'], 'src': op['src'], 'fired': list(fired)},
               {'ok': ok, 'exc': (not ok) and type(got).__name__})
        ctx.sig('poscar', op['coord'][0], op['box_scale'] != 1.0, fired, op['src'], op['dest'], wrote_symbols is not None, fmt[-1],
                len(set(cur['atype'].tolist())) < nt)
        if fired or op['src'] != 'text':
            ctx.changes += 2
        if self._io_failed(ctx, st, ok):
            return None
        if not ok:
            raise Violation('C08.L0', {'what': 'loading what was dumped raised', 'exception': type(got).__name__, 'message': str(got)[:300],
                                       'src': op['src']}, site=sut_site(got), klass='raise/%s/%s' % (klass, type(got).__name__))
        # documented normalisation: atoms grouped by type, order within a type kept
        order = np.argsort(cur['atype'], kind='stable')
        want = {'n': cur['n'], 'atype': cur['atype'][order], 'pos': cur['pos'][order]}
        if got.natoms != want['n']:
            raise Violation('C08.L1', {'what': 'atom count', 'got': got.natoms, 'want': want['n']}, klass='natoms/' + klass)
        if not np.array_equal(np.asarray(got.atoms.view['atype']), want['atype']):
            raise Violation('C08.L2', {'what': 'atom types (grouped by type)', 'got': np.asarray(got.atoms.view['atype']), 'want': want['atype']},
                            klass='atype/' + klass)
        s = float(op['box_scale'])
        u_v = self._u(fmt, V / s)
        box_tol = SAFETY * (u_v * s + channel.fmt_err(fmt, s) * np.abs(V / s)) + 32 * EPS * np.abs(V)
        self._cmp_float(ctx, 'cell vectors', got.box.vects, V, box_tol + 4e-9 * float(np.abs(V).max()), 'C08.L3', 'cell/' + klass)
        if float(np.abs(got.box.origin).max()) != 0.0:
            raise Violation('C08.L3', {'what': 'origin'}, klass='origin/' + klass)
        if op['coord'][0] in 'cCkK':
            u_p = self._u(fmt, want['pos'])
            pos_tol = SAFETY * u_p + 32 * EPS * np.abs(want['pos'])
        else:
            rel = geom.cart_to_rel(V, np.zeros(3), want['pos'])
            u_s = self._u(fmt, rel)
            colsum = np.abs(V).sum(axis=0)[None, :]
            pos_tol = (SAFETY * (u_s.max(axis=1)[:, None] * colsum + float(np.max(box_tol)) * (np.abs(rel).sum(axis=1)[:, None] + 1))
                       + 64 * EPS * self._kappa(V) * (np.abs(want['pos']) + colsum))
        self._cmp_float(ctx, 'positions', got.atoms.view['pos'], want['pos'], pos_tol, 'C08.L4', 'pos/' + klass, {'fmt': fmt, 'coord': op['coord']})
        if wrote_symbols is not None:
            gs = list(got.symbols)
            if gs[:len(wrote_symbols)] != wrote_symbols:
                raise Violation('C08.L6', {'what': 'element symbols', 'got': gs, 'want': wrote_symbols}, klass='symbols/' + klass)
        extra = sorted(set(got.atoms.view.keys()) - {'atype', 'pos'})
        if extra:
            raise Violation('C08.L5', {'what': 'properties appeared', 'extra': extra}, klass='extra/' + klass)
        return self._state_of(got)

    def nontrivial(self, ctx):
        return ctx.changes >= 2

    def simplify(self, op):
        out = []
        if op.get('src') != 'text':
            out.append(dict(op, src='text'))
        if op.get('dest') != 'return':
            out.append(dict(op, dest='return'))
        if op.get('plan'):
            for k in list(op['plan']):
                p = dict(op['plan'])
                p.pop(k)
                out.append(dict(op, plan=p))
        if op.get('spec') and len(op['spec']['atype']) > 2:
            s = op['spec']
            m = max(1, len(s['atype']) // 2)
            ns = dict(s, rel=s['rel'][:m], atype=s['atype'][:m],
                      props={k: v[:m * (len(v) // len(s['atype']))] for k, v in s['props'].items()})
            p = dict(op.get('plan') or {})
            p.pop('perm_atoms', None)
            p.pop('perm_vel', None)
            out.append(dict(op, spec=ns, plan=p))
        return out
