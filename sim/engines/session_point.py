"""C15 — histories of point-defect insertions on evolving systems, against a
record-per-atom model with original-id bookkeeping.

Faults: refused insertions (absent / ambiguous / occupied site, also through a
periodic image), ill-formed calls, scribbles on results (the input system and
every earlier system of the history must stay bit-identical).
"""

import itertools
import warnings

import numpy as np

from .. import geom
from ..kernel import Engine, Violation

import atomman as am

PROPS = {'charge': ('float', ()), 'vel': ('float', (3,)), 'tag': ('int', ()), 'stress': ('float', (3, 3)),
         'flag': ('bool', ())}
SYMS = ['Al', 'Cu', 'Fe', 'Ni']
DEFAULT_ATOL = 0.01
# one angstrom expressed in each length unit the caller may switch to (own table, not atomman's)
LENGTH_UNITS = {'angstrom': 1.0, 'nm': 0.1, 'um': 1e-4, 'cm': 1e-8, 'm': 1e-10}
KIND_FN = {'v': 'vacancy', 'i': 'interstitial', 's': 'substitutional', 'db': 'dumbbell'}


def shifts(pbc):
    rng = [(-1, 0, 1) if p else (0,) for p in pbc]
    return [np.array(s) for s in itertools.product(*rng)]


def pdist(V, pbc, p, q):
    """Smallest |q - p + n.V| over n in {-1,0,1} along periodic directions (27 candidates)."""
    d = np.asarray(q, dtype=float) - np.asarray(p, dtype=float)
    return min(float(np.linalg.norm(d + s @ V)) for s in shifts(pbc))


class MSys:
    def __init__(self):
        self.V = self.o = None
        self.pbc = None
        self.symbols = None
        self.reg = None             # name -> (cls, tshape), excludes old_id
        self.rows = []              # {'pos','atype',props...,'orig'}
        self.has_old_id = False
        self.real = None
        self.snap = None

    @property
    def n(self):
        return len(self.rows)

    def clone(self):
        m = MSys()
        m.V, m.o, m.pbc, m.symbols, m.reg = self.V, self.o, list(self.pbc), list(self.symbols), dict(self.reg)
        m.rows = [{k: (v.copy() if isinstance(v, np.ndarray) else v) for k, v in r.items()} for r in self.rows]
        m.has_old_id = self.has_old_id
        return m

    def margin(self, atol):
        if atol == 0:
            return 0.0
        """Half-width, as a fraction of atol, of the band around atol in which the model does not decide: 3 % of the
        tolerance, widened when the tolerance is so small in the current working units that the rounding of the position
        arithmetic (a few hundred ulp of the cell size) becomes comparable to it."""
        size = float(np.abs(self.V).max()) + float(np.abs(self.o).max()) + 1.0
        return min(0.6, max(0.03, 400 * 2.2e-16 * size / atol))

    def matches(self, P, atol):
        """(sure matches, borderline?) of atoms within atol of Cartesian P, periodic."""
        near, border = [], False
        dl = self.margin(atol)
        if atol == 0:
            # "exact coordinates only": a match is a distance of exactly zero; anything within rounding of it is undecided
            size = float(np.abs(self.V).max()) + float(np.abs(self.o).max()) + 1.0
            for i, r in enumerate(self.rows):
                d = pdist(self.V, self.pbc, P, r['pos'])
                if d == 0.0 and np.array_equal(np.asarray(P, dtype=float), np.asarray(r['pos'], dtype=float)):
                    near.append(i)
                elif d < 1e-9 * size:
                    border = True
            return near, border
        for i, r in enumerate(self.rows):
            d = pdist(self.V, self.pbc, P, r['pos'])
            if d <= (1 - dl) * atol:
                near.append(i)
            elif d < (1 + dl) * atol:
                border = True
        return near, border


def snapshot(s):
    """Bitwise picture of a System: used to show that inputs stay untouched."""
    out = {'vects': s.box.vects.tobytes(), 'origin': s.box.origin.tobytes(), 'pbc': np.asarray(s.pbc).tobytes(),
           'symbols': tuple(s.symbols), 'keys': tuple(s.atoms.view.keys()), 'natoms': s.natoms}
    for k in s.atoms.view:
        a = s.atoms.view[k]
        out['p:' + k] = (str(a.dtype), a.shape, a.tobytes())
    return out


class PointEngine(Engine):
    prop = 'C15'
    name = 'session_point'
    max_ops = 14
    expected_probes = ['history_len_ge_3', 'select_by_image', 'select_by_rel', 'select_negative_id', 'refused_absent',
                       'refused_ambiguous', 'refused_occupied', 'refused_occupied_image', 'allowed_nonperiodic_image',
                       'differential_alternatives', 'kwargs_given', 'origin_nonzero_scaled_db', 'one_atom_system',
                       'integer_pos_input', 'old_id_composed', 'scribbled_results', 'working_units_changed', 'dumbbell_vector_object_reused', 'working_units_from_seed', 'explicit_zero_tolerance', 'box_changed_through_the_box_object', 'refused_index_out_of_range', 'keyword_value_broadcast_shorthand', 'keyword_naming_no_property', 'scale_flag_as_numpy_bool']
    rule = ('Each run builds a base System (LAMMPS-oriented or rotated cell, any origin, any periodicity, 1-24 atoms with '
            'pairwise periodic separation >= 0.5 A, optionally one deliberately ambiguous pair 0.3*atol apart, 1-3 atom '
            'types, 0-3 extra per-atom properties of rank 0-2, optionally integer lattice coordinates) and applies a '
            'history of up to 14 operations, at most 6 of them successful insertions whose result becomes the next input: '
            'vacancy / interstitial / substitutional / dumbbell, directly or through point(); site chosen by index, '
            'negative index, Cartesian position, box-relative position, through a periodic image, exactly or within '
            '0.4*atol; atol default or explicit; property keywords for the new atom. The model decides from the 27 '
            'lattice-image distances whether the site is unique / absent / ambiguous / occupied; sites between 0.6 and '
            '1.6 atol are not generated (since round 5: the undecided band is 3 % of atol, widened only when atol is tiny in the working units in force; offsets just inside and just outside the tolerance are generated along random directions and along face and body diagonals). Every successful insertion is repeated through every other applicable selection '
            'method and the results compared (differential), then the alternative results are scribbled on. After every '
            'operation ALL systems of the history are compared bit-for-bit with their snapshots. One operation in twenty '
            'changes the working length unit (angstrom, nm, um, cm, m) between insertions: stored numbers keep their value, '
            'the documented default tolerance of 0.01 angstrom becomes another number, and every decision of the model uses it. '
            'Indices outside -natoms..natoms-1 must be refused; the scale flag is a Python or a numpy boolean; results are scribbled on in place (values, cell, periodicity). old_id must be unique in every result. Non-trivial run: a '
            'refused/ill-formed call or a scribble fired, or >= 2 successful insertions. distinct = distinct (previous '
            'kind, kind, selection, via, outcome, history depth, has-props, pbc pattern) signatures.')
    tolerances = {'copied cells': 'bit-exact', 'requested positions / dumbbell shifts given box-relative': '1e-9 * cell size',
                  'site match': 'decided when the periodic distance is <= (1-d)*atol or >= (1+d)*atol, d = max(0.03, 400 eps size/atol) capped at 0.6; nothing is demanded in between'}
    real_components = ['atomman.defect.point (vacancy, interstitial, substitutional, dumbbell, point)',
                       'atomman.core.System / Atoms / Box', 'atomman.core.dvect (compiled from the current tree)']
    stub_components = ['the caller (insertion order, selection method, refused and ill-formed calls, scribbles)']
    assumptions = ['exception classes are not part of the statement', 'an index outside -natoms..natoms-1 names an absent site and must be refused', 'keywords that name no per-atom property are ignored, one number stands for every component of a vector or tensor property (both as the unchanged library does)', 'masses are not carried by the defect generators and are not checked',
                   'old_id of ADDED atoms is not specified by the statement beyond not colliding with another atom\'s (an identifying index is unique)']

    # ------------------------------------------------------------------
    def config(self, ctx):
        r = ctx.rng
        names = r.sample(sorted(PROPS), r.randint(0, 3))
        return {'nops': r.randint(2, 14), 'props': sorted(names), 'pair': r.random() < 0.25, 'lattice': r.random() < 0.2,
                'natoms': r.choice([1, 2, 3, 4, 6, 8, 12, 16, 24]), 'ntypes': r.randint(1, 3),
                'pbc': [r.random() < 0.75 for _ in range(3)], 'rotated': r.random() < 0.25,
                'origin_zero': r.random() < 0.4, 'seed2': r.getrandbits(32)}

    def init(self, ctx, cfg):
        am.unitconvert.reset_units(length='angstrom', mass='amu', energy='eV', charge='e')
        warnings.simplefilter('ignore')
        import random
        r = random.Random(cfg['seed2'])
        m = MSys()
        if cfg['lattice']:
            na = r.choice([2, 3])
            a = 2.0 * na
            V = np.eye(3) * a
            o = np.zeros(3) if cfg['origin_zero'] else np.array([float(r.randint(-3, 3)) for _ in range(3)])
            sites = [np.array(p, dtype=float) * 2.0 + o for p in itertools.product(range(na), repeat=3)]
            r.shuffle(sites)
            pos = sites[:min(cfg['natoms'], len(sites))]
        else:
            V = geom.draw_tri_cell(r, 1.0) * r.uniform(1.5, 3.0)
            if cfg['rotated']:
                V = geom.snap_small(V @ geom.random_rotation(r).T)
            o = np.zeros(3) if cfg['origin_zero'] else geom.draw_origin(r, float(np.abs(V).max()), zero_ok=False)
            pos = []
            tries = 0
            while len(pos) < cfg['natoms'] and tries < 4000:
                tries += 1
                p = geom.rel_to_cart(V, o, [r.uniform(0.03, 0.97) for _ in range(3)])
                if all(pdist(V, cfg['pbc'], p, q) >= 0.5 for q in pos):
                    pos.append(p)
        m.V, m.o, m.pbc = V, o, [bool(x) for x in cfg['pbc']]
        m.reg = {k: PROPS[k] for k in cfg['props']}
        if cfg['pair'] and len(pos) >= 1 and not cfg['lattice']:
            u = np.array([r.gauss(0, 1) for _ in range(3)])
            u /= np.linalg.norm(u)
            pos.append(pos[0] + 0.3 * DEFAULT_ATOL * u)
        for i, p in enumerate(pos):
            row = {'pos': np.array(p, dtype=float), 'atype': r.randint(1, cfg['ntypes']), 'orig': i}
            for k, (cls, ts) in sorted(m.reg.items()):
                row[k] = self._draw(r, cls, ts)
            m.rows.append(row)
        nsym = r.choice([0, cfg['ntypes'], cfg['ntypes'], cfg['ntypes'] + 1])
        m.symbols = [r.choice(SYMS) for _ in range(nsym)]
        props = {k: np.array([row[k] for row in m.rows]) for k in sorted(m.reg)}
        atoms = am.Atoms(atype=np.array([row['atype'] for row in m.rows]), pos=np.array([row['pos'] for row in m.rows]), **props)
        box = am.Box(vects=V, origin=o)
        m.real = am.System(atoms=atoms, box=box, pbc=m.pbc, symbols=m.symbols or None)
        m.symbols = list(m.real.symbols)
        m.snap = snapshot(m.real)
        if m.n == 1:
            ctx.probe('one_atom_system')
        ctx.ev('init', 'base', {'n': m.n, 'V': V, 'o': o, 'pbc': m.pbc, 'props': sorted(m.reg)})
        self._atol0 = DEFAULT_ATOL
        return {'cfg': cfg, 'hist': [m], 'cur': 0, 'succ': 0, 'prev': 'init', 'atol0': DEFAULT_ATOL, 'length': 'angstrom'}

    def cleanup(self, st):
        am.unitconvert.reset_units(length='angstrom', mass='amu', energy='eV', charge='e')

    @staticmethod
    def _draw(r, cls, ts):
        def one():
            if cls == 'int':
                return r.randint(-5, 9)
            if cls == 'bool':
                return r.random() < 0.5
            return round(r.uniform(-50, 50), 3)
        if ts == ():
            return one()
        return np.array([one() for _ in range(int(np.prod(ts)))]).reshape(ts)

    # ------------------------------------------------------------------
    def gen(self, ctx, st):
        r = ctx.rng
        m = st['hist'][st['cur']]
        if st['succ'] >= 6 and r.random() < 0.5:
            return None
        scen = ctx.wchoice([('normal', 6), ('absent', 1), ('ambiguous', 1.2 if st['cfg']['pair'] else 0.2), ('occupied', 1),
                            ('illformed', 0.8), ('goto', 0.4), ('units', 0.5), ('box_edit', 0.3)])
        if scen == 'box_edit':
            return {'op': 'box_edit', 'factor': r.choice([0.9, 1.1, 1.25, 1.5])}
        if scen == 'units':
            if r.random() < 0.3:
                # working units re-drawn from a seed (numericalunits' own way); the length unit becomes some odd number
                return {'op': 'units', 'length': 'seed', 'seed': r.choice([2, 6, 11, 23, 101])}
            return {'op': 'units', 'length': r.choice([u for u in LENGTH_UNITS if u != st['length']])}
        if scen == 'goto':
            return {'op': 'goto', 'to': r.randrange(len(st['hist']))}
        if scen == 'illformed':
            return {'op': 'illformed', 'what': r.choice(['bad_id', 'same_type', 'pos_and_id', 'neither', 'bad_type', 'v_with_kwargs']),
                    'kind': r.choice(['v', 's', 'db']), 'which': r.randrange(5), 'via': r.choice(['direct', 'point'])}
        atol = r.choice([None, None, None, 0.05, 0.002, 0, 0.0])
        av = st['atol0'] if atol is None else atol
        kind = r.choice(['v', 'i', 's', 'db'])
        if scen == 'occupied':
            kind = 'i'
        if scen in ('absent', 'ambiguous') and kind == 'i':
            kind = r.choice(['v', 's', 'db'])
        if kind == 'v' and m.n <= 1:
            kind = 's'
        op = {'op': 'insert', 'kind': kind, 'via': r.choice(['direct', 'point']), 'atol': atol, 'scen': scen,
              'advance': r.random() < 0.85, 'pos_as': r.choice(['list', 'array', 'tuple', 'intlist']), 'junk': r.randint(40, 60)}
        periodic = [i for i in range(3) if m.pbc[i]]
        nonper = [i for i in range(3) if not m.pbc[i]]
        shift = [0, 0, 0]
        if kind == 'i' and scen == 'normal':
            # a free site: away from every atom
            for _ in range(200):
                rel = [r.uniform(0.02, 0.98) for _ in range(3)]
                P = geom.rel_to_cart(m.V, m.o, rel)
                if all(pdist(m.V, m.pbc, P, row['pos']) >= 0.5 for row in m.rows):
                    break
            if st['cfg']['lattice']:
                P = np.round(P)
                rel = geom.cart_to_rel(m.V, m.o, P).tolist()
            op.update(sel=r.choice(['pos', 'rel']), P=P.tolist(), rel=rel)
        else:
            site = r.randrange(m.n)
            sel = r.choice(['id', 'negid', 'pos', 'rel', 'image', 'image_rel', 'near'])
            if kind == 'i' or scen in ('absent', 'ambiguous'):
                sel = r.choice(['pos', 'rel', 'image', 'image_rel', 'near'])
            if scen == 'ambiguous' and st['cfg']['pair']:
                site = r.choice([0, m.n - 1])
            if sel in ('image', 'image_rel'):
                dirs = periodic if (periodic and not (scen == 'occupied' and nonper and r.random() < 0.3)) else (nonper or periodic)
                if dirs:
                    for d in r.sample(dirs, r.randint(1, len(dirs))):
                        shift[d] = r.choice([-1, 1])
            off = np.zeros(3)
            dl = m.margin(av)

            def direction():
                # random, or along a face / body diagonal (where a per-component test and a distance test differ most)
                if r.random() < 0.4:
                    u = np.array([r.choice([-1.0, 1.0]) for _ in range(3)])
                    if r.random() < 0.4:
                        u[r.randrange(3)] = 0.0
                else:
                    u = np.array([r.gauss(0, 1) for _ in range(3)])
                return u / np.linalg.norm(u)
            if sel == 'near' or r.random() < 0.2:
                off = direction() * r.choice([0.4, 0.4, max(0.4, 1 - 2 * dl)]) * av
            if scen == 'absent':
                off = direction() * r.choice([2.5 * av, 0.2, (1 + 2 * dl) * av, (1 + 2 * dl) * av, 1.6 * av])
            P = m.rows[site]['pos'] + off + np.array(shift) @ m.V
            op.update(site=site, sel=sel, P=P.tolist(), rel=geom.cart_to_rel(m.V, m.o, P).tolist(), shift=shift)
        if kind in ('i', 's', 'db'):
            kw = {}
            for k, (cls, ts) in sorted(m.reg.items()):
                if r.random() < 0.5:
                    v = self._draw(r, cls, ts)
                    kw[k] = v.tolist() if isinstance(v, np.ndarray) else v
            op['kwargs'] = kw
            op['shorthand'] = [k for k in kw if r.random() < 0.35]
            op['unknown_kw'] = r.choice([False, False, False, False, False, 'first', 'last'])
        if kind == 'i':
            op['atype'] = r.choice([None, 1, 2, 3, 4])
        if kind == 's':
            op['atype'] = r.randint(1, 4)
        if kind == 'db':
            u = np.array([r.gauss(0, 1) for _ in range(3)])
            op['db'] = (u / np.linalg.norm(u) * r.uniform(0.05, 0.3)).tolist()
            op['db_scale'] = r.random() < 0.5
            if st.get('last_db') and r.random() < 0.4:
                # the caller keeps one dumbbell vector (one array object) for several insertions
                op['db'], op['db_scale'] = st['last_db']
                op['db_same_object'] = True
            st['last_db'] = (list(op['db']), op['db_scale'])
        return op

    # ------------------------------------------------------------------
    def apply(self, ctx, st, op):
        k = op['op']
        if k == 'units':
            # the caller changes the working units between two insertions: every stored number keeps its value, what
            # "0.01 angstrom" (the documented default tolerance) is as a number changes
            if op['length'] == 'seed':
                import numericalunits as nu
                am.unitconvert.reset_units(int(op['seed']))
                st['length'] = 'seed'
                # one angstrom is 1e-10 m whatever the metre is worth now (read from numericalunits, not from atomman's table)
                st['atol0'] = self._atol0 = DEFAULT_ATOL * 1e-10 * float(nu.m)
                ctx.probe('working_units_from_seed')
            elif op['length'] not in LENGTH_UNITS:
                return
            else:
                am.unitconvert.reset_units(length=op['length'], mass='amu', energy='eV', charge='e')
                st['length'] = op['length']
                st['atol0'] = self._atol0 = DEFAULT_ATOL * LENGTH_UNITS[op['length']]
            ctx.fault('working_units_changed')
            ctx.probe('working_units_changed')
            ctx.ev('op', 'units', {'length': op['length']}, {'atol0': st['atol0']})
            return
        if k == 'box_edit':
            # the caller strains the cell of the current system directly through its Box (not through System.box_set):
            # atoms keep their Cartesian positions, periodic images move
            m = st['hist'][st['cur']]
            newV = np.array(m.V, dtype=float) * float(op['factor'])
            m.real.box.vects = newV
            m.V = np.array(m.real.box.vects, dtype=float)
            m.snap = snapshot(m.real)
            ctx.fault('box_changed_through_the_box_object')
            ctx.probe('box_changed_through_the_box_object')
            ctx.ev('op', 'box_edit', {'factor': op['factor']})
            return
        if k == 'goto':
            if 0 <= op['to'] < len(st['hist']):
                st['cur'] = op['to']
                ctx.ev('op', 'goto', {'to': op['to']})
            return
        m = st['hist'][st['cur']]
        if k == 'illformed':
            self._illformed(ctx, st, m, op)
            info = ('illformed', op['what'], 'raise?')
        else:
            info = self._insert(ctx, st, m, op)
            if info is None:
                ctx.ev('skip', 'insert')
                return
        ctx.op(k + ':' + str(op.get('kind')))
        self._inputs_untouched(ctx, st, k)
        depth = min(st['cur'], 4)
        ctx.sig(st['prev'], info, depth, bool(m.reg), tuple(m.pbc))
        st['prev'] = info[0]

    def _call(self, ctx, m, kind, via, kw):
        s = m.real
        if kw.get('scale') is True:
            # flags come out of comparisons: every other call hands the flag over as the numpy boolean np.all(...) returns
            ctx.nscale = getattr(ctx, 'nscale', 0) + 1         # per run: a replay sees the same alternation
            if ctx.nscale % 2:
                kw = dict(kw, scale=np.bool_(True))
                ctx.probe('scale_flag_as_numpy_bool')
        if via == 'point':
            kw = dict(kw)
            return ctx.sut(am.defect.point, s, ptd_type=kind, **kw)
        return ctx.sut(getattr(am.defect, KIND_FN[kind]), s, **kw)

    @staticmethod
    def _fmt(vec, how):
        v = np.asarray(vec, dtype=float)
        if how == 'list':
            return [float(x) for x in v]
        if how == 'tuple':
            return tuple(float(x) for x in v)
        if how == 'intlist':
            if np.all(v == np.round(v)):
                return [int(x) for x in v]
            return [float(x) for x in v]
        return v.copy()

    def _sel_kwargs(self, ctx, m, op, sel, P, rel, site):
        kw = {}
        if sel == 'id':
            kw['ptd_id'] = int(site)
        elif sel == 'negid':
            kw['ptd_id'] = int(site) - m.n
        elif sel in ('rel', 'image_rel'):
            kw['pos'] = self._fmt(rel, op['pos_as'])
            kw['scale'] = True
        else:
            kw['pos'] = self._fmt(P, op['pos_as'])
        if op['atol'] is not None:
            kw['atol'] = op['atol']
            if op['atol'] == 0:
                ctx.probe('explicit_zero_tolerance')
        return kw

    def _insert(self, ctx, st, m, op):
        kind = op['kind']
        if kind not in KIND_FN:
            return None
        av = st['atol0'] if op['atol'] is None else op['atol']
        P = np.array(op['P'], dtype=float)
        rel = np.array(op['rel'], dtype=float)
        sel = op['sel']
        size = float(np.abs(m.V).max()) + float(np.abs(m.o).max())
        # what the statement says must happen --------------------------
        if sel in ('id', 'negid'):
            site = op.get('site')
            if site is None or not 0 <= site < m.n:
                return None
            expect = 'ok'
        else:
            if sel in ('rel', 'image_rel'):
                P = geom.rel_to_cart(m.V, m.o, rel)
            near, border = m.matches(P, av)
            if border:
                return None
            if av == 0 and sel != 'pos':
                return None         # exact coordinates cannot be demanded through a box-relative or image round trip
            if kind == 'i':
                expect = 'ok' if not near else 'refuse'
                site = None
            else:
                expect = 'ok' if len(near) == 1 else 'refuse'
                site = near[0] if len(near) == 1 else None
        if kind == 'v' and m.n <= 1:
            return None
        kwargs = dict(op.get('kwargs') or {})
        kwargs = {k: v for k, v in kwargs.items() if k in m.reg}
        if kind == 's':
            newtype = int(op['atype'])
            if expect == 'ok' and int(m.rows[site]['atype']) == newtype:
                newtype = newtype % 4 + 1
        kw = self._sel_kwargs(ctx, m, op, sel, P, rel, site)
        if sel in ('pos', 'rel', 'near', 'image', 'image_rel') and op['pos_as'] == 'intlist' and all(isinstance(x, int) for x in kw['pos']):
            ctx.probe('integer_pos_input')
        call_kw = dict(kw)
        if op.get('unknown_kw') == 'first' and kind in ('i', 's', 'db'):
            call_kw['magmom'] = 1.5         # keyword order is the order the callee's loop sees
            ctx.probe('keyword_naming_no_property')
        short = set(op.get('shorthand') or [])
        for k2, v in list(kwargs.items()):
            ts2 = m.reg[k2][1]
            if k2 in short and ts2 and kind != 'v':
                # one number for every component of a vector / tensor property (numpy broadcasting, as in atoms.velocity = 0.0)
                v0 = np.array(v).reshape(-1)[0].item()
                kwargs[k2] = np.full(ts2, v0).tolist()
                call_kw[k2] = v0
                ctx.probe('keyword_value_broadcast_shorthand')
            else:
                call_kw[k2] = np.array(v) if isinstance(v, list) else v
        if op.get('unknown_kw') and op.get('unknown_kw') != 'first' and kind in ('i', 's', 'db'):
            # a keyword that names no per-atom property of this system: documented as ignored
            call_kw['magmom'] = 1.5
            ctx.probe('keyword_naming_no_property')
        if kind == 'i' and op.get('atype') is not None:
            call_kw['atype'] = int(op['atype'])
        if kind == 's':
            call_kw['atype'] = newtype
        db_cart = None
        if kind == 'db':
            db = np.array(op['db'], dtype=float)
            scaled = bool(kw.get('scale', False)) if 'pos' in kw else bool(op['db_scale'])
            if scaled:
                call_kw['scale'] = True
                call_kw['db_vect'] = self._fmt(np.linalg.solve(m.V.T, db), 'array')     # box-relative components
                key = (tuple(op['db']), m.V.tobytes())
                if op.get('db_same_object') and st.get('db_pass') and st['db_pass'][0] == key:
                    call_kw['db_vect'] = st['db_pass'][1]                               # the very same ndarray as last time
                    ctx.probe('dumbbell_vector_object_reused')
                st['db_pass'] = (key, call_kw['db_vect'])
                if float(np.abs(m.o).max()) > 0:
                    ctx.probe('origin_nonzero_scaled_db')
            else:
                call_kw['db_vect'] = self._fmt(db, op['pos_as'] if op['pos_as'] != 'intlist' else 'list')
            db_cart = db
        if kwargs:
            ctx.probe('kwargs_given')
        klass = '%s/%s/%s' % (kind, sel, op['via'])
        ok, res = self._call(ctx, m, kind, op['via'], call_kw)
        ctx.ev('op', 'insert', {'kind': kind, 'sel': sel, 'via': op['via'], 'expect': expect, 'site': site, 'P': P},
               {'ok': ok, 'exc': (not ok) and type(res).__name__})
        if expect == 'refuse':
            ctx.fault('refused_insertion')
            scen = op.get('scen')
            if kind == 'i':
                ctx.probe('refused_occupied_image' if any(op.get('shift', [0, 0, 0])) else 'refused_occupied')
            else:
                ctx.probe('refused_ambiguous' if len(near) > 1 else 'refused_absent')
            if ok:
                raise Violation('C15.R1', {'what': 'site is %s but a system was returned' % (
                    'occupied' if kind == 'i' else ('ambiguous' if len(near) > 1 else 'absent')), 'kind': kind, 'sel': sel,
                    'matches': near, 'pos': P, 'atol': av}, klass='refuse/' + kind + '/' + ('image' if any(op.get('shift', [0, 0, 0])) else 'direct'))
            return (kind, sel, 'refused')
        if not ok:
            from ..kernel import sut_site
            raise Violation('C15.X', {'what': 'well-formed insertion raised', 'exception': type(res).__name__, 'message': str(res)[:300],
                                      'kind': kind, 'sel': sel, 'pos_as': op['pos_as'], 'natoms': m.n, 'kw': sorted(call_kw)},
                            site=sut_site(res), klass=klass + ('/n1' if m.n == 1 else '') + ('/int' if op['pos_as'] == 'intlist' else ''))
        if kind == 'i' and any(op.get('shift', [0, 0, 0])) and op.get('scen') == 'occupied':
            ctx.probe('allowed_nonperiodic_image')
        if sel in ('image', 'image_rel'):
            ctx.probe('select_by_image')
        if sel in ('rel', 'image_rel'):
            ctx.probe('select_by_rel')
        if sel == 'negid':
            ctx.probe('select_negative_id')
        # model of the result ------------------------------------------
        new = m.clone()
        if kind == 'v':
            new.rows.pop(site)
        elif kind == 'i':
            row = {'pos': P.copy(), 'atype': int(op['atype']) if op.get('atype') is not None else 1, 'orig': None}
            for k2, (cls, ts) in m.reg.items():
                row[k2] = (np.array(kwargs[k2]).reshape(ts) if ts else kwargs[k2]) if k2 in kwargs else (np.zeros(ts) if ts else {'int': 0, 'float': 0.0, 'bool': False}[cls])
            new.rows.append(row)
        elif kind == 's':
            row = new.rows.pop(site)
            row['atype'] = newtype
            for k2, v in kwargs.items():
                ts = m.reg[k2][1]
                row[k2] = np.array(v).reshape(ts) if ts else v
            new.rows.append(row)
        else:
            row = new.rows.pop(site)
            row2 = {k2: (v.copy() if isinstance(v, np.ndarray) else v) for k2, v in row.items()}
            row['pos'] = row['pos'] - db_cart
            row2['pos'] = row2['pos'] + db_cart
            row2['orig'] = None
            for k2, v in kwargs.items():
                ts = m.reg[k2][1]
                row2[k2] = np.array(v).reshape(ts) if ts else v
            new.rows.append(row)
            new.rows.append(row2)
        new.has_old_id = True
        self._check_result(ctx, m, new, res, kind, klass, size, exact_pos=(kind != 'db' and sel not in ('rel', 'image_rel')))
        # differential: the same site through every other selection method
        if kind != 'i' and site is not None:
            self._differential(ctx, m, op, kind, site, call_kw, res, size)
        if kind == 'i':
            # the same free site given the other way round
            alt_kw = dict(call_kw)
            if 'scale' in alt_kw:
                alt_kw.pop('scale')
                alt_kw['pos'] = P.copy()
            else:
                alt_kw['scale'] = True
                alt_kw['pos'] = geom.cart_to_rel(m.V, m.o, P)
            ok2, res2 = self._call(ctx, m, kind, 'direct', alt_kw)
            if not ok2:
                raise Violation('C15.P6', {'what': 'free site accepted as %s but refused the other way' % sel, 'exception': type(res2).__name__},
                                klass='diff/i')
            self._same(ctx, res, res2, 'i/cart-vs-rel', size)
            self._scribble(ctx, res2, op['junk'])
        new.real = res
        new.symbols = list(res.symbols)
        new.snap = snapshot(res)
        if op['advance'] and st['succ'] < 6:
            del st['hist'][st['cur'] + 1:]
            st['hist'].append(new)
            st['cur'] = len(st['hist']) - 1
            st['succ'] += 1
            ctx.changes += 1
            if st['cur'] >= 3:
                ctx.probe('history_len_ge_3')
            if st['cur'] >= 2:
                ctx.probe('old_id_composed')
        else:
            self._scribble(ctx, res, op['junk'])
        return (kind, sel, 'ok', op['via'])

    # ------------------------------------------------------------------
    def _check_result(self, ctx, inp, new, res, kind, klass, size, exact_pos):
        if not isinstance(res, am.System):
            raise Violation('C15.P1', {'what': 'result is not a System', 'type': type(res).__name__}, klass=klass)
        dn = {'v': -1, 'i': 1, 's': 0, 'db': 1}[kind]
        if res.natoms != inp.n + dn:
            raise Violation('C15.P1', {'what': 'atom count change', 'kind': kind, 'before': inp.n, 'after': res.natoms}, klass='count/' + kind)
        # P7 cell, periodicity, symbols
        if not (np.array_equal(res.box.vects, inp.real.box.vects) and np.array_equal(res.box.origin, inp.real.box.origin)):
            raise Violation('C15.P7', {'what': 'cell changed', 'vects': res.box.vects, 'want': inp.real.box.vects}, klass='cell/' + kind)
        if list(map(bool, res.pbc)) != list(inp.pbc):
            raise Violation('C15.P7', {'what': 'periodicity changed', 'got': list(map(bool, res.pbc)), 'want': inp.pbc}, klass='pbc/' + kind)
        rs = list(res.symbols)
        if rs[:len(inp.symbols)] != list(inp.symbols) or any(x is not None for x in rs[len(inp.symbols):]):
            raise Violation('C15.P7', {'what': 'symbols changed', 'got': rs, 'want': inp.symbols}, klass='symbols/' + kind)
        keys = list(res.atoms.view.keys())
        want_keys = set(inp.reg) | {'atype', 'pos', 'old_id'}
        if set(keys) != want_keys:
            raise Violation('C15.P2', {'what': 'property set', 'got': keys, 'want': sorted(want_keys)}, klass='keys/' + kind)
        ndef = {'v': 0, 'i': 1, 's': 1, 'db': 2}[kind]
        old_id = np.asarray(res.atoms.view['old_id'])
        for j, row in enumerate(new.rows):
            is_defect = j >= new.n - ndef
            clause = 'C15.P4' if is_defect else 'C15.P2'
            what = 'defect atom' if is_defect else 'surviving atom'
            got_pos = res.atoms.view['pos'][j]
            tol = 0.0 if (exact_pos or not is_defect) else 1e-9 * size
            if not np.all(np.abs(got_pos - row['pos']) <= tol):
                raise Violation(clause, {'what': what + ' position', 'row': j, 'got': got_pos, 'want': row['pos'], 'kind': kind},
                                klass='pos/%s/%s' % (kind, 'defect' if is_defect else 'other'))
            row['pos'] = np.array(got_pos, dtype=float)     # from here on this atom is compared bit for bit
            if int(res.atoms.view['atype'][j]) != int(row['atype']):
                raise Violation(clause, {'what': what + ' type', 'row': j, 'got': int(res.atoms.view['atype'][j]), 'want': int(row['atype'])},
                                klass='atype/%s/%s' % (kind, 'defect' if is_defect else 'other'))
            for k2, (cls, ts) in inp.reg.items():
                g = res.atoms.view[k2][j]
                if not np.array_equal(np.asarray(g), np.asarray(row[k2])):
                    raise Violation(clause, {'what': what + ' property ' + k2, 'row': j, 'got': g, 'want': row[k2], 'kind': kind},
                                    klass='prop/%s/%s' % (kind, 'defect' if is_defect else 'other'))
            # P3: old-index map composes along the history
            if row['orig'] is not None and int(old_id[j]) != row['orig']:
                raise Violation('C15.P3', {'what': 'old_id does not identify the atom of the first system', 'row': j, 'got': int(old_id[j]),
                                           'want': row['orig'], 'kind': kind, 'had_old_id': inp.has_old_id}, klass='old_id/' + kind)
        # P3: an index that identifies atoms is not handed out twice (an added atom must not carry the old
        # index of a surviving atom)
        vals = [int(v) for v in old_id]
        if len(set(vals)) != len(vals):
            dup = sorted({v for v in vals if vals.count(v) > 1})
            raise Violation('C15.P3', {'what': 'old_id is not unique: an added atom carries the old index of a surviving atom',
                                       'duplicates': dup[:5], 'kind': kind, 'old_id': vals[-6:]}, klass='old_id/dup/' + kind)
        # P5 no sharing between result and input
        for k2 in inp.real.atoms.view:
            if k2 in res.atoms.view and np.shares_memory(res.atoms.view[k2], inp.real.atoms.view[k2]):
                raise Violation('C15.P5', {'what': 'result shares memory with the input system', 'key': k2}, klass='alias/' + kind)
        if res.box is inp.real.box or res.atoms is inp.real.atoms:
            raise Violation('C15.P5', {'what': 'result shares its Box/Atoms object with the input'}, klass='alias/' + kind)

    def _same(self, ctx, a, b, what, size):
        if a.natoms != b.natoms or list(a.atoms.view.keys()) != list(b.atoms.view.keys()):
            raise Violation('C15.P6', {'what': 'selection methods disagree on structure', 'how': what, 'natoms': [a.natoms, b.natoms]}, klass='diff/' + what)
        for k2 in a.atoms.view:
            x, y = np.asarray(a.atoms.view[k2]), np.asarray(b.atoms.view[k2])
            if k2 == 'pos':
                okv = x.shape == y.shape and np.all(np.abs(x - y) <= 1e-9 * size)
            else:
                okv = np.array_equal(x, y)
            if not okv:
                raise Violation('C15.P6', {'what': 'selection methods give different results', 'how': what, 'key': k2}, klass='diff/' + what)
        if not (np.array_equal(a.box.vects, b.box.vects) and np.array_equal(a.box.origin, b.box.origin)):
            raise Violation('C15.P6', {'what': 'selection methods give different cells', 'how': what}, klass='diff/' + what)

    def _differential(self, ctx, m, op, kind, site, call_kw, res, size):
        base = {k: v for k, v in call_kw.items() if k not in ('ptd_id', 'pos', 'scale', 'db_vect')}
        P = m.rows[site]['pos']
        periodic = [i for i in range(3) if m.pbc[i]]
        alts = [('id', {'ptd_id': int(site)}), ('negid', {'ptd_id': int(site) - m.n})]
        if m.n > 0:
            near, border = m.matches(P, self._atol0 if op['atol'] is None else op['atol'])
            if near == [site] and not border:
                alts.append(('pos', {'pos': P.copy()}))
                if op['atol'] != 0:
                    alts.append(('rel', {'pos': geom.cart_to_rel(m.V, m.o, P), 'scale': True}))
                if periodic and op['atol'] != 0:
                    sh = np.zeros(3)
                    sh[periodic[0]] = 1.0
                    sh[periodic[-1]] = -1.0 if len(periodic) > 1 else 1.0
                    alts.append(('image', {'pos': P + sh @ m.V}))
        for name, sk in alts:
            kw = dict(base)
            kw.update(sk)
            if kind == 'db':
                db = np.array(op['db'], dtype=float)
                if kw.get('scale'):
                    kw['db_vect'] = np.linalg.solve(m.V.T, db)
                else:
                    kw['db_vect'] = db.copy()
            ok, alt = self._call(ctx, m, kind, 'point' if name in ('id', 'rel') else 'direct', kw)
            if not ok:
                from ..kernel import sut_site
                raise Violation('C15.P6', {'what': 'same site refused when selected another way', 'how': name, 'exception': type(alt).__name__,
                                           'message': str(alt)[:200], 'natoms': m.n}, site=sut_site(alt),
                                klass='diff-raise/%s/%s%s' % (kind, name, '/n1' if m.n == 1 else ''))
            self._same(ctx, res, alt, '%s/%s' % (kind, name), size)
            self._scribble(ctx, alt, op['junk'])
            ctx.probe('differential_alternatives')

    def _scribble(self, ctx, s, junk):
        for k2 in s.atoms.view:
            a = s.atoms.view[k2]
            if a.dtype.kind in 'iuf':
                a[...] = junk
        try:
            s.box.set(vects=np.eye(3) * float(junk), origin=[junk, junk, junk])
        except Exception:       # noqa: BLE001
            pass
        try:
            s.pbc[...] = np.logical_not(s.pbc)      # in place: making a slab of the result must not make a slab of the input
        except (ValueError, TypeError):
            pass
        s.pbc = [False, False, False]
        ctx.fault('scribble_result')
        ctx.probe('scribbled_results')

    def _illformed(self, ctx, st, m, op):
        what, kind = op['what'], op['kind']
        s = m.real
        fn = getattr(am.defect, KIND_FN[kind])
        extra = {'db_vect': [0.1, 0.0, 0.0]} if kind == 'db' else ({'atype': 4} if kind == 's' else {})
        if what == 'bad_id':
            # an index that names no atom is an absent site: refused, never folded back into range
            pid = {0: m.n + 3, 1: m.n, 2: -m.n - 1, 3: 2 * m.n, 4: -2 * m.n - 1}[int(op.get('which', 0)) % 5]
            if op.get('via') == 'point':
                ok, res = ctx.sut(am.defect.point, s, ptd_type=kind, ptd_id=pid, **extra)
            else:
                ok, res = ctx.sut(fn, s, ptd_id=pid, **extra)
            ctx.probe('refused_index_out_of_range')
            if ok:
                raise Violation('C15.R1', {'what': 'an index outside -natoms..natoms-1 was accepted', 'ptd_id': pid, 'natoms': m.n, 'kind': kind,
                                           'natoms_after': getattr(res, 'natoms', None)}, klass='refuse/index-out-of-range/' + kind)
        elif what == 'same_type':
            ok, res = ctx.sut(am.defect.substitutional, s, ptd_id=0, atype=int(m.rows[0]['atype']))
        elif what == 'pos_and_id':
            ok, res = ctx.sut(fn, s, ptd_id=0, pos=m.rows[0]['pos'].copy(), **extra)
        elif what == 'neither':
            ok, res = ctx.sut(fn, s, **extra)
        elif what == 'bad_type':
            ok, res = ctx.sut(am.defect.point, s, ptd_type='zz', ptd_id=0)
        else:
            ok, res = ctx.sut(am.defect.point, s, ptd_type='v', ptd_id=0, charge=1.0)
        ctx.fault('illformed_call')
        ctx.ev('op', 'illformed', {'what': what, 'kind': kind}, {'raised': (not ok) and type(res).__name__})
        if ok and isinstance(res, am.System):
            self._scribble(ctx, res, 33)

    def _inputs_untouched(self, ctx, st, after):
        for d, m in enumerate(st['hist']):
            now = snapshot(m.real)
            if now != m.snap:
                diff = sorted(k for k in set(now) | set(m.snap) if now.get(k) != m.snap.get(k))
                raise Violation('C15.P5', {'what': 'a system of the history changed', 'depth': d, 'current': st['cur'], 'changed': diff,
                                           'after': after}, klass='input-touched/' + ('cur' if d == st['cur'] else 'earlier'))

    def finish(self, ctx, st):
        self._inputs_untouched(ctx, st, 'finish')

    def nontrivial(self, ctx):
        return sum(ctx.faults.values()) >= 1 or ctx.changes >= 2

    def simplify(self, op):
        out = []
        if op.get('via') == 'point':
            out.append(dict(op, via='direct'))
        if op.get('pos_as') not in (None, 'array'):
            out.append(dict(op, pos_as='array'))
        if op.get('kwargs'):
            out.append(dict(op, kwargs={}))
        if op.get('atol') is not None:
            out.append(dict(op, atol=None))
        return out
