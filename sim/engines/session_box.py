"""C01 — one long-lived Box driven through a history of setters, queries,
refused setters and caller scribbles, against a 3x3-matrix + origin model.

What a fresh-Box-per-case test cannot see and this engine can: state that
outlives a call (the reciprocal-vector cache, arrays bound instead of copied).
"""

import copy
import json
import math

import numpy as np

from .. import geom
from ..kernel import Engine, Violation

import atomman as am

RTOL = 1e-9             # stated relative rounding bound for this property
FACE_TOL = 1e-9         # points this close (relative coords) to a face are exempt

FIXED_REL = np.array([[0.5, 0.5, 0.5], [0.25, 0.75, 0.1], [-0.3, 1.7, 0.4],
                      [1.25, -0.5, 2.0], [0.0, 0.0, 0.0], [1.0, 1.0, 1.0]])

SETTERS = ['set_vectors', 'set_abc', 'set_lengths', 'set_hi_los', 'vects_attr',
           'origin_attr', 'set_origin', 'set_default', 'ctor', 'classmethod']


def close(x, y, atol, rtol=0.0):
    x = np.asarray(x, dtype=float)
    y = np.asarray(y, dtype=float)
    if x.shape != y.shape:
        return False
    return bool(np.all(np.abs(x - y) <= atol + rtol * np.abs(y)))


ANGLE_TYPES = ['int', 'int8', 'uint8', 'int16', 'uint16', 'int32', 'int64']


def _draw_angtype(r, al, be, ga):
    """Whole-number angles are, four times in ten, handed over as the integers a caller has (Python int, or an element of
    an integer array of some width); the cell they define is the same."""
    if all(float(x).is_integer() for x in (al, be, ga)) and r.random() < 0.4:
        t = r.choice(ANGLE_TYPES)
        if t == 'int8' and max(al, be, ga) > 127:
            t = 'int16'
        return t
    return None


def _typed_angles(ctx, t, al, be, ga):
    if not t or not all(float(x).is_integer() for x in (al, be, ga)):
        return al, be, ga
    ctx.probe('integer_typed_angles')
    if t == 'int':
        return int(al), int(be), int(ga)
    arr = np.array([al, be, ga], dtype=t)
    return arr[0], arr[1], arr[2]


class BoxEngine(Engine):
    prop = 'C01'
    name = 'session_box'
    max_ops = 40
    expected_probes = ['cache_warm_when_vects_changed', 'refused_raised', 'scribble_returned',
                       'scribble_passed', 'on_face_exact', 'nonnorm_cell', 'reexpress_norm',
                       'reexpress_nonnorm', 'list_input', 'scalar_point', 'model_roundtrip', 'model_of_other_cell_read', 'noncontiguous_points', 'cube_rotated_cell', 'bulk_points_query', 'classmethod_same_arguments_again', 'integer_typed_lengths', 'integer_typed_angles', 'refused_vector_of_wrong_length', 'refused_origin_of_wrong_length', 'lammps_lengths_of_rotated_cell_refused', 'integer_typed_cartesian_points', 'bystander_call', 'earlier_definition_repeated',
                       'scribble_returned_planes']
    rule = ('Each run drives ONE Box object (occasionally replaced by a constructor or deepcopy) through up to 40 '
            'seeded operations: the five setter families (set_vectors, set_abc, set_lengths, set_hi_los, '
            'set(**kw)), direct vects=/origin= assignment, constructors and crystal-family class methods, '
            'data-model round trips (its own model, or the model of ANOTHER cell read into the live object), deepcopy, point queries (list or array input, leading shapes (), (n,), '
            '(m,n)), re-expression through every other parameter family, refused setters, and caller '
            'scribbles on arrays returned by or passed to the Box. After EVERY operation the Box is compared '
            'with an independent 3x3+origin model and (in 3 runs of 4) converted both ways on fixed points, so '
            'the reciprocal cache is usually warm when the vectors next change. Cells: right-handed, lengths '
            'over 14 decades of scale, angles 30-150 deg or LAMMPS tilts up to 1.2 box lengths, origin within '
            '3 cell sizes; general (rotated) cells for the vector family. Whole-number lengths and angles also arrive as Python ints or as elements of integer arrays (8 to 64 bit). A run is non-trivial when it '
            'contains a fired fault or >= 2 state-changing operations; distinct = distinct (previous op, op, '
            'variant, cache-warm, cell-class, refused) signatures over non-trivial runs.')
    tolerances = {'vects_origin_abs': '4e-9*max|vects| (the setter zeroes entries below 1e-9*max by design)',
                  'lengths_volume_rel': 1e-9, 'angles_abs_deg': 1e-6,
                  'conversion': '1e-11*cond(vects)*(1+|origin|/|vects|), floor 1e-12, in relative coordinates',
                  'face_exemption_rel': FACE_TOL}
    real_components = ['atomman.core.Box (all setters, getters, model, conversions, inside/outside)',
                       'atomman.region.Plane', 'atomman.tools.vect_angle', 'atomman.unitconvert.model/value_unit',
                       'DataModelDict JSON']
    stub_components = ['the caller (operation order, refused calls, scribbles on handed-out and passed-in arrays)']
    assumptions = ['no schedule or clock exists for this property; the history axis is the order of calls on one object',
                   'cells are right-handed and non-degenerate as the quantifier states',
                   'refusals are not demanded by the statement: a refused setter that does raise must leave, field by field, the old value or the valid new one it was given, and everything derived (reciprocal vectors, planes, inside/outside) must fit what is there']

    # ------------------------------------------------------------------
    def config(self, ctx):
        r = ctx.rng
        return {
            'nops': r.randint(4, 40),
            'scale_exp': r.choice([0, 0, 0, r.uniform(-10, 4)]),
            'post_convert': r.random() < 0.75,
            'fault_free': r.random() < 0.2,
            'w_query': r.uniform(0.5, 3), 'w_set': r.uniform(1, 3), 'w_fault': r.uniform(0.3, 2),
            'w_reexpress': r.uniform(0.3, 2), 'w_model': r.uniform(0.1, 1),
        }

    def init(self, ctx, cfg):
        am.unitconvert.reset_units(length='angstrom', mass='amu', energy='eV', charge='e')
        st = {'cfg': cfg, 'box': am.Box(), 'V': np.eye(3), 'o': np.zeros(3), 'warm': False,
              'prev': 'init', 'scale': 10.0 ** cfg['scale_exp']}
        return st

    # ------------------------------------------------------------------
    # generation
    def _cell(self, ctx, st, general=False):
        r = ctx.rng
        V = geom.draw_tri_cell(r, st['scale'], big_tilt=r.random() < 0.3)
        if general and r.random() < 0.7:
            if r.random() < 0.25:
                # an exact rotation of the cube group: zeros stay zeros, signs and axes change
                V = V @ geom.CUBE_ROTATIONS[r.randrange(len(geom.CUBE_ROTATIONS))].T
                ctx.probe('cube_rotated_cell')
            else:
                V = V @ geom.random_rotation(r).T
        size = float(np.abs(V).max())
        # Box documents that it zeroes vector components below 1e-9 of the largest one ("Zero out near zero terms"); a
        # component that a random rotation leaves in that band is a cell "closer than the rounding bound" to another cell,
        # so such components are generated as exact zeros (seen once in 300 000 runs: 8.9e-10 of the cell size)
        V[np.abs(V) < 1e-7 * size] = 0.0
        o = geom.draw_origin(r, size)
        return V, o

    def gen(self, ctx, st):
        r = ctx.rng
        cfg = st['cfg']
        kinds = [('set', cfg['w_set']), ('query', cfg['w_query']), ('reexpress', cfg['w_reexpress']),
                 ('model', cfg['w_model']), ('deepcopy', 0.15), ('bystander', 0.5)]
        if not cfg['fault_free']:
            kinds.append(('fault', cfg['w_fault']))
        k = ctx.wchoice(kinds)
        if k == 'set':
            return self._gen_set(ctx, st)
        if k == 'query':
            return self._gen_query(ctx, st)
        if k == 'reexpress':
            return {'op': 'reexpress'}
        if k == 'model':
            op = {'op': 'model', 'via': r.choice(['dm', 'json', 'ctor', 'ctor_json']),
                  'unit': r.choice(['angstrom', 'nm', 'm', 'angstrom'])}
            if op['via'] in ('dm', 'json') and r.random() < 0.5:
                # the model of ANOTHER cell is read into this long-lived object
                V, o = self._cell(ctx, st, general=True)
                op['other'] = {'V': V, 'origin': o}
            return op
        if k == 'deepcopy':
            return {'op': 'deepcopy'}
        if k == 'bystander':
            return {'op': 'bystander', 'which': r.choice(['plane_crystal_to_cartesian', 'vector_crystal_to_cartesian', 'planes', 'str',
                                                           'is_lammps_norm', 'volume', 'reciprocal_vects']),
                    'hkl': [r.randint(-3, 3) for _ in range(3)]}
        return self._gen_fault(ctx, st)

    def _gen_set(self, ctx, st):
        r = ctx.rng
        how = ctx.wchoice([('set_vectors', 2), ('set_abc', 2), ('set_lengths', 2), ('set_hi_los', 2),
                           ('vects_attr', 2), ('origin_attr', 1), ('set_origin', 0.5), ('set_default', 0.2),
                           ('ctor', 0.7), ('classmethod', 0.4)])
        via = r.choice(['method', 'set'])
        op = {'op': how, 'via': via}
        if st.get('set_hist') and r.random() < 0.15:
            # the same definition as some time ago, after the object has meanwhile been given other cells
            ctx.probe('earlier_definition_repeated')
            return dict(r.choice(st['set_hist']))
        if how in ('set_vectors', 'vects_attr'):
            V, o = self._cell(ctx, st, general=True)
            op['V'] = V
            op['origin'] = o if (how == 'set_vectors' and r.random() < 0.7) else None
            op['as_list'] = r.random() < 0.5
        elif how == 'set_abc':
            a, b, c, al, be, ga = geom.draw_abc(r, st['scale'])
            op['abc'] = [a, b, c, al, be, ga]
            op['angtype'] = _draw_angtype(r, al, be, ga)
            op['defaults'] = (al, be, ga) == (90.0, 90.0, 90.0) and r.random() < 0.5
            size = max(a, b, c)
            op['origin'] = geom.draw_origin(r, size) if r.random() < 0.6 else None
        elif how in ('set_lengths', 'set_hi_los'):
            V, o = self._cell(ctx, st)
            if st['scale'] >= 1 and r.random() < 0.2:
                # whole-number lengths (and bounds) handed over as Python ints, tilts as floats
                V[0, 0], V[1, 1], V[2, 2] = [float(max(1, round(x))) for x in (V[0, 0], V[1, 1], V[2, 2])]
                o = np.round(o)
                op['ints'] = True
            op['l'] = [V[0, 0], V[1, 1], V[2, 2], V[1, 0], V[2, 0], V[2, 1]]
            op['defaults'] = (V[1, 0], V[2, 0], V[2, 1]) == (0.0, 0.0, 0.0) and r.random() < 0.5
            if how == 'set_hi_los':
                op['origin'] = o
            else:
                op['origin'] = o if r.random() < 0.6 else None
        elif how in ('origin_attr', 'set_origin'):
            size = float(np.abs(st['V']).max())
            op['origin'] = geom.draw_origin(r, size, zero_ok=False)
            op['as_list'] = r.random() < 0.5
        elif how == 'ctor':
            fam = r.choice(['vects', 'avect', 'abc', 'lengths', 'hi_los', 'none', 'origin'])
            V, o = self._cell(ctx, st, general=fam in ('vects', 'avect'))
            op['family'] = fam
            if fam == 'abc':
                a, b, c, al, be, ga = geom.draw_abc(r, st['scale'])
                op['abc'] = [a, b, c, al, be, ga]
                op['angtype'] = _draw_angtype(r, al, be, ga)
            else:
                op['V'] = V
            op['origin'] = o
        elif how == 'classmethod' and st.get('last_cm') and r.random() < 0.4:
            # the same standard cell asked for again: it must be that cell, whatever happened to the earlier object
            op['family'], op['args'] = st['last_cm']
            op['repeat'] = True
        elif how == 'classmethod':
            s = st['scale'] * 10 ** r.uniform(0, 1)
            fam = r.choice(['cubic', 'hexagonal', 'tetragonal', 'trigonal', 'orthorhombic', 'monoclinic', 'triclinic'])
            a, b, c = s, s * r.uniform(1.1, 1.9), s * r.uniform(2.1, 3.0)
            op['family'] = fam
            if fam == 'cubic':
                op['args'] = [a]
            elif fam in ('hexagonal', 'tetragonal'):
                op['args'] = [a, c]
            elif fam == 'trigonal':
                op['args'] = [a, r.uniform(35, 115)]
            elif fam == 'orthorhombic':
                op['args'] = [a, b, c]
            elif fam == 'monoclinic':
                op['args'] = [a, b, c, r.uniform(95, 140)]
            else:
                for _ in range(100):
                    al, be, ga = r.uniform(50, 130), r.uniform(50, 130), r.uniform(50, 130)
                    if geom.realisable(al, be, ga):
                        break
                else:
                    al, be, ga = 80.0, 85.0, 95.0
                op['args'] = [a, b, c, al, be, ga]
        return op

    def _gen_query(self, ctx, st):
        r = ctx.rng
        shape = r.choice([(), (1,), (3,), (7,), (2, 3), (1, 1), (4, 2)])
        n = int(np.prod(shape)) if shape else 1
        pts = []
        for _ in range(n):
            p = []
            for _ in range(3):
                kind = r.random()
                if kind < 0.55:
                    p.append(r.uniform(0.02, 0.98))
                elif kind < 0.85:
                    p.append(r.uniform(-1.5, 2.5))
                elif kind < 0.9:
                    p.append(r.choice([0.0, 1.0]))
                elif kind < 0.95:
                    p.append(r.choice([1e-12, 1 - 1e-12, -1e-12, 1 + 1e-12]))
                else:
                    p.append(r.choice([-7.0, 12.0, 0.5]))
            pts.append(p)
        rel = np.array(pts).reshape(tuple(shape) + (3,))
        if r.random() < 0.03:
            # a large set of points in one call (drawn in apply from the recorded seed: replay files stay small)
            return {'op': 'query', 'rel': [[0.5, 0.5, 0.5]], 'bulk': {'n': r.choice([10000, 12000, 20011, 65537, 100003]), 'seed': r.getrandbits(31)},
                    'as_list': False, 'inclusive': r.random() < 0.5, 'face': None, 'int_input': False, 'layout': r.choice(['C', 'F'])}
        return {'op': 'query', 'rel': rel, 'as_list': r.random() < 0.4, 'inclusive': r.random() < 0.5,
                'face': r.choice([None, None, 0, 1, 2, 3, 4, 5]), 'int_input': r.random() < 0.1,
                'int_cart': r.random() < 0.12, 'layout': r.choice(['C', 'C', 'F', 'strided', 'T'])}

    def _gen_fault(self, ctx, st):
        r = ctx.rng
        k = ctx.wchoice([('refuse', 1.0), ('scribble_returned', 1.0), ('scribble_passed', 1.0)])
        if k == 'refuse':
            what = r.choice(['abc_angle', 'lengths_nonpos', 'hi_lo_inverted', 'set_unknown', 'set_extra',
                             'ctor_model_extra', 'vectors_bad_shape', 'vectors_bad_shape', 'origin_bad_length', 'origin_bad_length'])
            op = {'op': 'refuse', 'what': what}
            s = st['scale'] * 3.0
            if what == 'abc_angle':
                ang = [90.0, 90.0, 90.0]
                ang[r.randrange(3)] = r.choice([0.0, 180.0, -20.0, 200.0])
                op['abc'] = [s, s * 1.5, s * 2.0] + ang
            elif what == 'origin_bad_length':
                # a complete, valid new cell together with an origin that is not a 3-vector
                op['family'] = r.choice(['vects', 'vectors', 'abc', 'lengths', 'hi_los'])
                op['ncomp'] = r.choice([2, 4])
                op['via'] = r.choice(['method', 'set'])
            elif what == 'vectors_bad_shape':
                # three new edge vectors of which one is not a 3-vector: nothing of the call may stick
                op['bad'] = r.randrange(3)
                op['ncomp'] = r.choice([2, 4])
                op['via'] = r.choice(['method', 'set'])
            elif what in ('lengths_nonpos', 'hi_lo_inverted'):
                l = [s, s * 1.5, s * 2.0]
                l[r.randrange(3)] = r.choice([0.0, -s])
                op['l'] = l
            return op
        if k == 'scribble_returned':
            return {'op': 'scribble_returned', 'which': r.choice(['vects', 'origin', 'avect', 'bvect', 'cvect', 'planes', 'planes']),
                    'junk': r.uniform(-50, 50)}
        V, o = self._cell(ctx, st, general=True)
        return {'op': 'scribble_passed', 'how': r.choice(['vects_attr', 'set_vectors', 'set_vects', 'origin_attr', 'ctor']),
                'V': V, 'origin': o, 'junk': r.uniform(-50, 50)}

    # ------------------------------------------------------------------
    # application
    def apply(self, ctx, st, op):
        k = op['op']
        ctx.op(k)
        pre_warm = st['warm']
        refused = False
        variant = op.get('via') or op.get('family') or op.get('what') or op.get('which') or op.get('how') or ''
        if k in SETTERS:
            self._apply_set(ctx, st, op)
            ctx.changes += 1
            if k in ('set_abc', 'set_lengths', 'set_hi_los', 'set_vectors'):
                hist = st.setdefault('set_hist', [])
                if op not in hist:
                    hist.append(op)
                    del hist[:-4]
        elif k == 'query':
            self._apply_query(ctx, st, op)
        elif k == 'reexpress':
            self._apply_reexpress(ctx, st)
        elif k == 'model':
            self._apply_model(ctx, st, op)
        elif k == 'deepcopy':
            st['box'] = ctx.must('C01.X', copy.deepcopy, st['box'])
            ctx.ev('op', 'deepcopy')
        elif k == 'bystander':
            # other things a caller does with a Box between two conversions; none of them may change the cell
            box, which = st['box'], op['which']
            hkl = [int(x) for x in op['hkl']]
            if not any(hkl):
                hkl = [1, 0, 0]
            if which == 'plane_crystal_to_cartesian':
                ctx.sut(box.plane_crystal_to_cartesian, np.array(hkl))
            elif which == 'vector_crystal_to_cartesian':
                ctx.sut(box.vector_crystal_to_cartesian, np.array(hkl))
            elif which == 'planes':
                ctx.sut(getattr, box, 'planes')
            elif which == 'str':
                ctx.sut(str, box)
            else:
                ctx.sut(getattr, box, which)
                if which == 'reciprocal_vects':
                    st['warm'] = True
            ctx.probe('bystander_call')
            ctx.ev('op', 'bystander', {'which': which})
        elif k == 'refuse':
            refused = self._apply_refuse(ctx, st, op)
        elif k == 'scribble_returned':
            self._apply_scribble_returned(ctx, st, op)
        elif k == 'scribble_passed':
            self._apply_scribble_passed(ctx, st, op)
            ctx.changes += 1
        else:
            raise Violation('C01.harness', {'unknown op': k})
        self._invariants(ctx, st, after=k)
        cls = 'norm' if geom.is_tri(st['V']) else 'general'
        ctx.sig(st['prev'], k, variant, pre_warm, cls, refused)
        st['prev'] = k

    # -- setters
    def _vects_changed(self, ctx, st):
        if st['warm']:
            ctx.probe('cache_warm_when_vects_changed')
        st['warm'] = False

    def _apply_set(self, ctx, st, op):
        k = op['op']
        box = st['box']
        klass = k + '/' + str(op.get('via') or op.get('family'))

        def arr(x, as_list):
            if x is None:
                return None
            return [list(map(float, row)) for row in x] if (as_list and np.ndim(x) == 2) else (
                list(map(float, x)) if as_list else np.array(x, dtype=float))

        if k == 'set_vectors':
            V = np.array(op['V'], dtype=float)
            o = None if op['origin'] is None else np.array(op['origin'], dtype=float)
            kw = {'avect': arr(V[0], op['as_list']), 'bvect': arr(V[1], op['as_list']), 'cvect': arr(V[2], op['as_list'])}
            if o is not None:
                kw['origin'] = arr(o, op['as_list'])
            ctx.must('C01.X', box.set if op['via'] == 'set' else box.set_vectors, klass=klass, **kw)
            st['V'], st['o'] = V, (np.zeros(3) if o is None else o)
            self._vects_changed(ctx, st)
        elif k == 'vects_attr':
            V = np.array(op['V'], dtype=float)
            if op['via'] == 'set':
                ctx.must('C01.X', box.set, klass=klass, vects=arr(V, op['as_list']))
                st['o'] = np.zeros(3)          # documented: origin defaults to (0,0,0)
            else:
                ctx.must('C01.X', setattr, box, 'vects', arr(V, op['as_list']), klass=klass)
            st['V'] = V
            self._vects_changed(ctx, st)
        elif k == 'set_abc':
            a, b, c, al, be, ga = op['abc']
            kw = {'a': a, 'b': b, 'c': c}
            if not op['defaults']:
                tal, tbe, tga = _typed_angles(ctx, op.get('angtype'), al, be, ga)
                kw.update(alpha=tal, beta=tbe, gamma=tga)
            if op['origin'] is not None:
                kw['origin'] = np.array(op['origin'], dtype=float)
            ctx.must('C01.X', box.set if op['via'] == 'set' else box.set_abc, klass=klass, **kw)
            st['V'] = geom.tri_from_abc(a, b, c, al, be, ga)
            st['o'] = np.zeros(3) if op['origin'] is None else np.array(op['origin'], dtype=float)
            self._vects_changed(ctx, st)
        elif k == 'set_lengths':
            lx, ly, lz, xy, xz, yz = op['l']
            kw = {'lx': lx, 'ly': ly, 'lz': lz}
            if op.get('ints') and all(float(v).is_integer() for v in (lx, ly, lz)):
                kw = {'lx': int(lx), 'ly': int(ly), 'lz': int(lz)}
                ctx.probe('integer_typed_lengths')
            if not op['defaults']:
                kw.update(xy=xy, xz=xz, yz=yz)
            if op['origin'] is not None:
                kw['origin'] = np.array(op['origin'], dtype=float)
            ctx.must('C01.X', box.set if op['via'] == 'set' else box.set_lengths, klass=klass, **kw)
            st['V'] = np.array([[lx, 0, 0], [xy, ly, 0], [xz, yz, lz]], dtype=float)
            st['o'] = np.zeros(3) if op['origin'] is None else np.array(op['origin'], dtype=float)
            self._vects_changed(ctx, st)
        elif k == 'set_hi_los':
            lx, ly, lz, xy, xz, yz = op['l']
            o = np.array(op['origin'], dtype=float)
            hi = o + np.array([lx, ly, lz])
            kw = {'xlo': o[0], 'xhi': hi[0], 'ylo': o[1], 'yhi': hi[1], 'zlo': o[2], 'zhi': hi[2]}
            if op.get('ints') and all(float(v).is_integer() for v in list(o) + list(hi)):
                kw = {k2: int(v) for k2, v in kw.items()}
                ctx.probe('integer_typed_lengths')
            if not op['defaults']:
                kw.update(xy=xy, xz=xz, yz=yz)
            ctx.must('C01.X', box.set if op['via'] == 'set' else box.set_hi_los, klass=klass, **kw)
            # the parameter set IS (lo, hi): the lengths are hi - lo as floats
            l = hi - o
            st['V'] = np.array([[l[0], 0, 0], [xy, l[1], 0], [xz, yz, l[2]]], dtype=float)
            st['o'] = o
            self._vects_changed(ctx, st)
        elif k == 'origin_attr':
            o = np.array(op['origin'], dtype=float)
            ctx.must('C01.X', setattr, box, 'origin', arr(o, op['as_list']), klass=klass)
            st['o'] = o
        elif k == 'set_origin':
            o = np.array(op['origin'], dtype=float)
            ctx.must('C01.X', box.set, klass=klass, origin=arr(o, op['as_list']))
            st['o'] = o
        elif k == 'set_default':
            ctx.must('C01.X', box.set, klass=klass)
            st['V'], st['o'] = np.eye(3), np.zeros(3)
            self._vects_changed(ctx, st)
        elif k == 'ctor':
            fam = op['family']
            o = np.array(op['origin'], dtype=float)
            if fam == 'none':
                nb = ctx.must('C01.X', am.Box, klass=klass)
                V, o = np.eye(3), np.zeros(3)
            elif fam == 'origin':
                nb = ctx.must('C01.X', am.Box, klass=klass, origin=o)
                V = np.eye(3)
            elif fam == 'vects':
                V = np.array(op['V'], dtype=float)
                nb = ctx.must('C01.X', am.Box, klass=klass, vects=V, origin=o)
            elif fam == 'avect':
                V = np.array(op['V'], dtype=float)
                nb = ctx.must('C01.X', am.Box, klass=klass, avect=V[0], bvect=V[1], cvect=V[2], origin=o)
            elif fam == 'abc':
                a, b, c, al, be, ga = op['abc']
                tal, tbe, tga = _typed_angles(ctx, op.get('angtype'), al, be, ga)
                nb = ctx.must('C01.X', am.Box, klass=klass, a=a, b=b, c=c, alpha=tal, beta=tbe, gamma=tga, origin=o)
                V = geom.tri_from_abc(a, b, c, al, be, ga)
            elif fam == 'lengths':
                V = np.array(op['V'], dtype=float)
                nb = ctx.must('C01.X', am.Box, klass=klass, lx=V[0, 0], ly=V[1, 1], lz=V[2, 2],
                              xy=V[1, 0], xz=V[2, 0], yz=V[2, 1], origin=o)
            else:
                V = np.array(op['V'], dtype=float)
                hi = o + np.array([V[0, 0], V[1, 1], V[2, 2]])
                nb = ctx.must('C01.X', am.Box, klass=klass, xlo=o[0], xhi=hi[0], ylo=o[1], yhi=hi[1],
                              zlo=o[2], zhi=hi[2], xy=V[1, 0], xz=V[2, 0], yz=V[2, 1])
                l = hi - o
                V = np.array([[l[0], 0, 0], [V[1, 0], l[1], 0], [V[2, 0], V[2, 1], l[2]]], dtype=float)
            st['box'], st['V'], st['o'], st['warm'] = nb, V, o, False
        elif k == 'classmethod':
            fam, a = op['family'], op['args']
            if st.get('last_cm') == (fam, list(a)):
                ctx.probe('classmethod_same_arguments_again')
            st['last_cm'] = (fam, list(a))
            nb = ctx.must('C01.X', getattr(am.Box, fam), *a, klass=klass)
            if fam == 'cubic':
                V = geom.tri_from_abc(a[0], a[0], a[0], 90, 90, 90)
            elif fam == 'hexagonal':
                V = geom.tri_from_abc(a[0], a[0], a[1], 90, 90, 120)
            elif fam == 'tetragonal':
                V = geom.tri_from_abc(a[0], a[0], a[1], 90, 90, 90)
            elif fam == 'trigonal':
                V = geom.tri_from_abc(a[0], a[0], a[0], a[1], a[1], a[1])
            elif fam == 'orthorhombic':
                V = geom.tri_from_abc(a[0], a[1], a[2], 90, 90, 90)
            elif fam == 'monoclinic':
                V = geom.tri_from_abc(a[0], a[1], a[2], 90, a[3], 90)
            else:
                V = geom.tri_from_abc(*a)
            st['box'], st['V'], st['o'], st['warm'] = nb, V, np.zeros(3), False
        ctx.ev('op', k, {kk: vv for kk, vv in op.items() if kk != 'op'})

    # -- queries
    def _conv_tol(self, st):
        V, o = st['V'], st['o']
        cond = float(np.linalg.cond(V))
        ratio = 1.0 + float(np.abs(o).max()) / float(np.abs(V).max())
        return max(1e-12, 1e-11 * cond * ratio)

    def _apply_query(self, ctx, st, op):
        box, V, o = st['box'], st['V'], st['o']
        rel = np.array(op['rel'], dtype=float)
        if op.get('bulk'):
            g = np.random.Generator(np.random.PCG64(int(op['bulk']['seed'])))
            rel = g.uniform(-0.6, 1.6, size=(int(op['bulk']['n']), 3))
            ctx.probe('bulk_points_query')
        if op.get('int_input'):
            rel = np.round(rel * 2)          # integer-valued relative coordinates
        cart = geom.rel_to_cart(V, o, rel)
        int_cart = bool(op.get('int_cart')) and not op.get('bulk') and float(np.abs(V).max()) >= 2.0
        if int_cart:
            # Cartesian points on the integer grid, handed over with an integer dtype (grid points, voxel indices)
            cart = np.round(cart)
            rel = geom.cart_to_rel(V, o, cart)
            ctx.probe('integer_typed_cartesian_points')
        size = float(np.abs(V).max()) + float(np.abs(o).max())
        tol = self._conv_tol(st)
        klass = 'list' if op['as_list'] else 'array'
        if rel.ndim == 1:
            ctx.probe('scalar_point')
        if op['as_list']:
            ctx.probe('list_input')

        def give(x):
            if op.get('int_input') or (int_cart and x is cart):
                x = x.astype(int) if np.all(x == np.round(x)) else x
            if op['as_list']:
                return x.tolist()
            lay = op.get('layout', 'C')
            if lay != 'C':
                x = geom.with_layout(x, lay)
                if x.ndim and not x.flags['C_CONTIGUOUS']:
                    ctx.probe('noncontiguous_points')
            return x

        got_cart = ctx.must('C01.B4', box.position_relative_to_cartesian, give(rel), klass='rel2cart/' + klass)
        held = st.get('held')
        if held is not None and not np.array_equal(held[0], held[1]):
            raise Violation('C01.B7', {'what': 'an array returned by an earlier conversion changed when the Box was asked again',
                                       'was': held[1], 'now': held[0]}, klass='result-overwritten')
        if isinstance(got_cart, np.ndarray) and got_cart.ndim:
            st['held'] = (got_cart, np.array(got_cart, copy=True))
        mag = float(np.abs(rel).max()) + 1.0
        if not close(got_cart, cart, atol=tol * size * mag):
            raise Violation('C01.B4', {'what': 'relative->cartesian differs from model', 'rel': rel, 'got': got_cart,
                                       'want': cart}, klass='rel2cart/value')
        got_rel = ctx.must('C01.B4', box.position_cartesian_to_relative, give(cart), klass='cart2rel/' + klass)
        st['warm'] = True
        if not close(got_rel, rel, atol=tol * mag):
            raise Violation('C01.B4', {'what': 'cartesian->relative differs from model', 'cart': cart, 'got': got_rel,
                                       'want': rel, 'tol': tol * mag}, klass='cart2rel/value')
        # mutual inverses, through the box alone
        back = ctx.must('C01.B4', box.position_cartesian_to_relative, got_cart, klass='cart2rel/array')
        if not close(back, rel, atol=tol * mag):
            raise Violation('C01.B4', {'what': 'cart2rel(rel2cart(x)) != x', 'x': rel, 'got': back}, klass='inverse')
        forth = ctx.must('C01.B4', box.position_relative_to_cartesian, got_rel, klass='rel2cart/array')
        if not close(forth, cart, atol=tol * size * mag):
            raise Violation('C01.B4', {'what': 'rel2cart(cart2rel(x)) != x', 'x': cart, 'got': forth}, klass='inverse')

        # inside / outside
        incl = bool(op['inclusive'])
        ins = ctx.must('C01.B6', box.inside, give(cart), inclusive=incl, klass='inside/' + klass)
        outs = ctx.must('C01.B6', box.outside, give(cart), inclusive=incl, klass='outside/' + klass)
        # same values in the same memory layout: a point exactly on a face may fall either way with the rounding of another
        # summation order, but outside() must be the exact complement of inside() on identical input
        ins_other = ctx.must('C01.B6', box.inside, give(cart), inclusive=not incl, klass='inside/array')
        ins = np.asarray(ins)
        if ins.shape != rel.shape[:-1]:
            raise Violation('C01.B6', {'what': 'inside() result shape', 'got': list(ins.shape), 'want': list(rel.shape[:-1])},
                            klass='inside/shape')
        relm = geom.cart_to_rel(V, o, cart)
        ftol = max(FACE_TOL, 10 * tol)
        near = np.any((np.abs(relm) < ftol) | (np.abs(relm - 1) < ftol), axis=-1)
        want = np.all((relm >= 0) & (relm <= 1), axis=-1)
        bad = (~near) & (np.asarray(ins) != want)
        if np.any(bad):
            raise Violation('C01.B6', {'what': 'inside() disagrees with relative coordinates in [0,1]', 'rel': relm,
                                       'inside': ins, 'inclusive': incl}, klass='inside/value')
        if np.any((~near) & (np.asarray(outs) == want)):
            raise Violation('C01.B6', {'what': 'outside() is not the complement of inside()', 'rel': relm,
                                       'outside': outs}, klass='outside/value')
        if np.any(np.asarray(outs) != ~np.asarray(ins_other)):
            raise Violation('C01.B6', {'what': 'outside(inclusive=f) != ~inside(inclusive=not f)'}, klass='outside/flag')

        # exact on-face points: only where the arithmetic is exact (orthogonal cell)
        face = op.get('face')
        bV, bo = box.vects, box.origin      # the face is where the Box's own numbers put it
        if face is not None and bV[1, 0] == 0 and bV[2, 0] == 0 and bV[2, 1] == 0 and geom.is_tri(bV):
            ax = face % 3
            diag = np.array([bV[0, 0], bV[1, 1], bV[2, 2]])
            p = bo + 0.5 * diag
            p[ax] = bo[ax] if face < 3 else (bo + diag)[ax]
            # the point is strictly interior in the other two directions
            r_in = ctx.must('C01.B6', box.inside, p, inclusive=True, klass='inside/face')
            r_ex = ctx.must('C01.B6', box.inside, p, inclusive=False, klass='inside/face')
            o_in = ctx.must('C01.B6', box.outside, p, inclusive=True, klass='outside/face')
            o_ex = ctx.must('C01.B6', box.outside, p, inclusive=False, klass='outside/face')
            ctx.probe('on_face_exact')
            if not (bool(r_in) is True and bool(r_ex) is False and bool(o_in) is True and bool(o_ex) is False):
                raise Violation('C01.B6', {'what': 'point exactly on a face of an orthogonal cell', 'face': face,
                                           'point': p, 'inside_incl': bool(r_in), 'inside_excl': bool(r_ex),
                                           'outside_incl': bool(o_in), 'outside_excl': bool(o_ex)}, klass='face')
        ctx.ev('op', 'query', {'rel': rel, 'inclusive': incl, 'as_list': op['as_list']}, {'inside': ins})

    # -- re-expression through every other parameter family
    def _apply_reexpress(self, ctx, st):
        box, V, o = st['box'], st['V'], st['o']
        vmax = float(np.abs(V).max())
        atol = 4e-9 * vmax
        otol = 4e-9 * (vmax + float(np.abs(o).max()))
        a, b, c, al, be, ga = (ctx.must('C01.B3', getattr, box, n) for n in ('a', 'b', 'c', 'alpha', 'beta', 'gamma'))
        norm = ctx.must('C01.B3', box.is_lammps_norm)
        if geom.is_tri(V) and not norm:
            raise Violation('C01.B3', {'what': 'is_lammps_norm False for a lower-triangular cell', 'V': V}, klass='norm')
        upper = np.array([V[0, 1], V[0, 2], V[1, 2]])
        if norm and np.any(np.abs(upper) > 1e-6 * vmax):
            raise Violation('C01.B3', {'what': 'is_lammps_norm True for a rotated cell', 'V': V}, klass='norm')
        if norm:
            ctx.probe('reexpress_norm')
            org = ctx.must('C01.B3', getattr, box, 'origin')
            b_abc = ctx.must('C01.B3', am.Box, a=a, b=b, c=c, alpha=al, beta=be, gamma=ga, origin=org, klass='re/abc')
            lx, ly, lz, xy, xz, yz = (ctx.must('C01.B3', getattr, box, n) for n in ('lx', 'ly', 'lz', 'xy', 'xz', 'yz'))
            b_len = ctx.must('C01.B3', am.Box, lx=lx, ly=ly, lz=lz, xy=xy, xz=xz, yz=yz, origin=org, klass='re/lengths')
            hl = {n: ctx.must('C01.B3', getattr, box, n) for n in ('xlo', 'xhi', 'ylo', 'yhi', 'zlo', 'zhi')}
            b_hl = ctx.must('C01.B3', am.Box, xy=xy, xz=xz, yz=yz, klass='re/hi_los', **hl)
            b_vec = ctx.must('C01.B3', am.Box, avect=box.avect, bvect=box.bvect, cvect=box.cvect, origin=org, klass='re/vectors')
            b_vs = ctx.must('C01.B3', am.Box, vects=box.vects, origin=org, klass='re/vects')
            # cross-family: hi/lo values re-entered as lengths, abc re-entered through set_abc on a used box
            for name, nb, t in (('abc', b_abc, 64 * atol), ('lengths', b_len, atol), ('hi_los', b_hl, 4 * otol),
                                ('vectors', b_vec, atol), ('vects', b_vs, atol)):
                if not close(nb.vects, V, atol=t) or not close(nb.origin, o, atol=4 * otol):
                    raise Violation('C01.B3', {'what': 'rebuilt from family differs', 'family': name, 'vects': nb.vects,
                                               'origin': nb.origin, 'want_vects': V, 'want_origin': o}, klass='re/' + name)
        else:
            ctx.probe('reexpress_nonnorm')
            ctx.probe('nonnorm_cell')
            nb = ctx.must('C01.B3', am.Box, a=a, b=b, c=c, alpha=al, beta=be, gamma=ga, klass='re/abc')
            G = V @ V.T
            G2 = nb.vects @ nb.vects.T
            if not close(G2, G, atol=1e-8 * float(np.abs(G).max())):
                raise Violation('C01.B3', {'what': 'cell rebuilt from lengths and angles is not congruent', 'gram': G2,
                                           'want': G}, klass='re/abc-gram')
            if not ctx.must('C01.B3', nb.is_lammps_norm):
                raise Violation('C01.B3', {'what': 'set_abc result not LAMMPS compatible'}, klass='re/abc-norm')
            vol = ctx.must('C01.B3', getattr, nb, 'volume')
            if abs(vol - geom.volume(V)) > 1e-8 * geom.volume(V):
                raise Violation('C01.B3', {'what': 'volume changed by re-expression', 'got': vol, 'want': geom.volume(V)},
                                klass='re/abc-volume')
            b_vec = ctx.must('C01.B3', am.Box, avect=box.avect, bvect=box.bvect, cvect=box.cvect, origin=box.origin, klass='re/vectors')
            if not close(b_vec.vects, V, atol=atol) or not close(b_vec.origin, o, atol=otol):
                raise Violation('C01.B3', {'what': 'rebuilt from vectors differs', 'vects': b_vec.vects}, klass='re/vectors')
            # the LAMMPS lengths and tilts of a rotated cell: refused (twice, by a caller that tries again), or - if handed out -
            # those of the same cell up to a rotation
            for attempt in (1, 2):
                ok, vals = ctx.sut(lambda: [getattr(box, n) for n in ('lx', 'ly', 'lz', 'xy', 'xz', 'yz')])
                if not ok:
                    ctx.probe('lammps_lengths_of_rotated_cell_refused')
                    continue
                lx, ly, lz, xy, xz, yz = [float(x) for x in vals]
                ok2, nb2 = ctx.sut(am.Box, lx=lx, ly=ly, lz=lz, xy=xy, xz=xz, yz=yz)
                G3 = (nb2.vects @ nb2.vects.T) if ok2 else None
                if G3 is None or not close(G3, G, atol=1e-8 * float(np.abs(G).max())):
                    raise Violation('C01.B3', {'what': 'LAMMPS lengths and tilts handed out for a rotated cell are not those of the cell',
                                               'attempt': attempt, 'values': [lx, ly, lz, xy, xz, yz], 'gram': G3, 'want': G}, klass='re/nonnorm-lengths')
        ctx.ev('op', 'reexpress', None, {'norm': bool(norm)})

    # -- data model
    def _apply_model(self, ctx, st, op):
        box = st['box']
        other = op.get('other') if op['via'] in ('dm', 'json') else None
        if other is not None:
            V, o = np.array(other['V'], dtype=float), np.array(other['origin'], dtype=float)
            donor = ctx.must('C01.X', am.Box, vects=V, origin=o, klass='model/donor')
            m = ctx.must('C01.X', donor.model, length_unit=op['unit'], klass='model/write')
            st['V'], st['o'] = V, o
            ctx.probe('model_of_other_cell_read')
        else:
            m = ctx.must('C01.X', box.model, length_unit=op['unit'], klass='model/write')
        src = m if op['via'] in ('dm', 'ctor') else ctx.must('C01.X', m.json, klass='model/json')
        if op['via'] in ('ctor', 'ctor_json'):
            st['box'] = ctx.must('C01.X', am.Box, model=src, klass='model/ctor')
            st['warm'] = False
        else:
            ctx.must('C01.X', box.model, src, klass='model/read')
            self._vects_changed(ctx, st)
        ctx.probe('model_roundtrip')
        ctx.ev('op', 'model', {'via': op['via'], 'unit': op['unit']})

    # -- faults
    def _apply_refuse(self, ctx, st, op):
        box = st['box']
        what = op['what']
        if what == 'abc_angle':
            a, b, c, al, be, ga = op['abc']
            ok, v = ctx.sut(box.set_abc, a=a, b=b, c=c, alpha=al, beta=be, gamma=ga)
        elif what == 'lengths_nonpos':
            ok, v = ctx.sut(box.set_lengths, lx=op['l'][0], ly=op['l'][1], lz=op['l'][2])
        elif what == 'hi_lo_inverted':
            l = op['l']
            ok, v = ctx.sut(box.set_hi_los, xlo=0.0, xhi=l[0], ylo=0.0, yhi=l[1], zlo=0.0, zhi=l[2])
        elif what == 'origin_bad_length':
            Vn = np.diag(np.abs(np.diag(st['V'])) * 1.7 + 0.5 * float(np.abs(st['V']).max()))
            op_new = Vn
            bad_o = ([0.5, -0.25, 1.0, 2.0])[:int(op.get('ncomp', 2))]
            fam = op.get('family', 'vects')
            if fam == 'vects':
                kw = {'vects': Vn}
                fn = box.set
            elif fam == 'vectors':
                kw = {'avect': Vn[0], 'bvect': Vn[1], 'cvect': Vn[2]}
                fn = box.set if op.get('via') == 'set' else box.set_vectors
            elif fam == 'abc':
                kw = {'a': Vn[0, 0], 'b': Vn[1, 1], 'c': Vn[2, 2]}
                fn = box.set if op.get('via') == 'set' else box.set_abc
            elif fam == 'lengths':
                kw = {'lx': Vn[0, 0], 'ly': Vn[1, 1], 'lz': Vn[2, 2]}
                fn = box.set if op.get('via') == 'set' else box.set_lengths
            else:
                kw = {'xlo': 0.0, 'xhi': Vn[0, 0], 'ylo': 0.0, 'yhi': Vn[1, 1], 'zlo': 0.0, 'zhi': Vn[2, 2]}
                fn = box.set if op.get('via') == 'set' else box.set_hi_los
            if fam == 'hi_los':
                ok, v = ctx.sut(fn, **dict(kw, xlo=bad_o))          # a bound that is not a number
            else:
                ok, v = ctx.sut(fn, origin=bad_o, **kw)
            ctx.probe('refused_origin_of_wrong_length')
        elif what == 'vectors_bad_shape':
            rows = [list(map(float, 1.5 * st['V'][(i + 1) % 3] + 0.25 * st['V'][i])) for i in range(3)]
            k = int(op.get('bad', 2)) % 3
            rows[k] = (rows[k] + [1.0])[:int(op.get('ncomp', 2))]
            fn = box.set if op.get('via') == 'set' else box.set_vectors
            ok, v = ctx.sut(fn, avect=rows[0], bvect=rows[1], cvect=rows[2])
            ctx.probe('refused_vector_of_wrong_length')
        elif what == 'set_unknown':
            ok, v = ctx.sut(box.set, bogus=1.0)
        elif what == 'set_extra':
            ok, v = ctx.sut(box.set, vects=st['V'] * 2, bogus=1.0)
        else:
            ok, v = ctx.sut(am.Box, model=box.model(), a=1.0)
        ctx.fault('refused_setter')
        ctx.ev('op', 'refuse', {'what': what}, {'raised': (not ok) and type(v).__name__})
        if not ok:
            ctx.probe('refused_raised')
            # after a refusal: old values, or (not atomic) the new ones; never anything else
            Vn = box.vects
            if what == 'set_extra' and close(Vn, st['V'] * 2, atol=1e-9 * float(np.abs(Vn).max())):
                st['V'] = st['V'] * 2
                self._vects_changed(ctx, st)
            if what == 'origin_bad_length':
                # the cell part of the request was valid: it may have been taken before the origin was looked at
                new = np.diag(np.abs(np.diag(st['V'])) * 1.7 + 0.5 * float(np.abs(st['V']).max()))
                if close(Vn, new, atol=1e-9 * float(np.abs(new).max())):
                    st['V'] = new
                    if op.get('family') == 'hi_los':
                        st['o'] = np.array(box.origin, dtype=float) if close(np.array(box.origin)[1:], np.zeros(2), atol=0) else st['o']
                    self._vects_changed(ctx, st)
            return True
        # the statement does not demand a refusal; garbage went in, so re-seat the box
        ctx.probe('refusal_not_raised')
        ctx.must('C01.X', box.set, vects=st['V'], origin=st['o'], klass='reseat')
        self._vects_changed(ctx, st)
        return False

    def _apply_scribble_returned(self, ctx, st, op):
        box = st['box']
        which = op['which']
        if which == 'planes':
            # the six face planes a caller gets are the caller's: shifting or re-orienting them (as the dislocation
            # builders do to make a trimmed PlaneSet) must not move the Box
            planes = ctx.must('C01.B7', getattr, box, 'planes', klass='get/planes')
            for pl in planes:
                try:
                    pl.point -= 0.37 * (1.0 + float(np.abs(st['V']).max())) * pl.normal
                    pl.normal[...] = pl.normal[::-1].copy()
                except (ValueError, TypeError):
                    pass
            ctx.fault('scribble_returned')
            ctx.probe('scribble_returned_planes')
            ctx.ev('op', 'scribble_returned', {'which': which})
            return
        arr = ctx.must('C01.B7', getattr, box, which, klass='get/' + which)
        try:
            arr[...] = op['junk']
        except (ValueError, TypeError):
            pass
        ctx.fault('scribble_returned')
        ctx.probe('scribble_returned')
        ctx.ev('op', 'scribble_returned', {'which': which})

    def _apply_scribble_passed(self, ctx, st, op):
        box = st['box']
        how = op['how']
        V = np.array(op['V'], dtype=float)
        o = np.array(op['origin'], dtype=float)
        Vp, op_ = V.copy(), o.copy()
        if how == 'vects_attr':
            ctx.must('C01.X', setattr, box, 'vects', Vp, klass='pass/vects_attr')
            st['V'] = V
        elif how == 'set_vects':
            ctx.must('C01.X', box.set, vects=Vp, origin=op_, klass='pass/set_vects')
            st['V'], st['o'] = V, o
        elif how == 'set_vectors':
            ctx.must('C01.X', box.set_vectors, avect=Vp[0], bvect=Vp[1], cvect=Vp[2], origin=op_, klass='pass/set_vectors')
            st['V'], st['o'] = V, o
        elif how == 'origin_attr':
            ctx.must('C01.X', setattr, box, 'origin', op_, klass='pass/origin_attr')
            st['o'] = o
        else:
            st['box'] = box = ctx.must('C01.X', am.Box, vects=Vp, origin=op_, klass='pass/ctor')
            st['V'], st['o'] = V, o
        if how != 'origin_attr':
            self._vects_changed(ctx, st)
        Vp[...] = op['junk']
        op_[...] = -op['junk']
        ctx.fault('scribble_passed')
        ctx.probe('scribble_passed')
        ctx.ev('op', 'scribble_passed', {'how': how, 'V': V, 'origin': o})

    # ------------------------------------------------------------------
    def _invariants(self, ctx, st, after):
        box, V, o = st['box'], st['V'], st['o']
        vmax = float(np.abs(V).max())
        atol = 4e-9 * vmax
        gotV = ctx.must('C01.B1', getattr, box, 'vects')
        goto = ctx.must('C01.B1', getattr, box, 'origin')
        ktol = 64 * atol if after in ('set_abc', 'classmethod', 'ctor', 'model') else atol
        if not close(gotV, V, atol=ktol):
            raise Violation('C01.B1', {'what': 'vects differ from model', 'after': after, 'got': gotV, 'want': V}, klass='vects/' + after)
        otol = 4e-9 * (vmax + float(np.abs(o).max()))
        if not close(goto, o, atol=otol):
            raise Violation('C01.B1', {'what': 'origin differs from model', 'after': after, 'got': goto, 'want': o}, klass='origin/' + after)
        for i, n in enumerate(('avect', 'bvect', 'cvect')):
            if not close(ctx.must('C01.B1', getattr, box, n), gotV[i], atol=0):
                raise Violation('C01.B1', {'what': n + ' is not row of vects'}, klass='rows')
        # B2 lengths, angles, volume are those of the vectors
        want = geom.lengths_angles(gotV)
        got = [ctx.must('C01.B2', getattr, box, n) for n in ('a', 'b', 'c', 'alpha', 'beta', 'gamma')]
        for n, g, w in zip('abc', got[:3], want[:3]):
            if not abs(g - w) <= RTOL * w:
                raise Violation('C01.B2', {'what': 'length ' + n, 'got': g, 'want': w}, klass='length')
        for n, g, w in zip(('alpha', 'beta', 'gamma'), got[3:], want[3:]):
            if not abs(g - w) <= 1e-6:
                raise Violation('C01.B2', {'what': 'angle ' + n, 'got': g, 'want': w}, klass='angle')
        vol = ctx.must('C01.B2', getattr, box, 'volume')
        wv = geom.volume(gotV)
        if not abs(vol - wv) <= RTOL * wv:
            raise Violation('C01.B2', {'what': 'volume', 'got': vol, 'want': wv}, klass='volume')
        # LAMMPS parameters of a LAMMPS-oriented cell are entries of the vectors and origin
        if geom.is_tri(V) and geom.is_tri(gotV):
            names = ('lx', 'ly', 'lz', 'xy', 'xz', 'yz', 'xlo', 'ylo', 'zlo', 'xhi', 'yhi', 'zhi')
            wantl = (gotV[0, 0], gotV[1, 1], gotV[2, 2], gotV[1, 0], gotV[2, 0], gotV[2, 1], goto[0], goto[1], goto[2],
                     goto[0] + gotV[0, 0], goto[1] + gotV[1, 1], goto[2] + gotV[2, 2])
            for n, w in zip(names, wantl):
                g = ctx.must('C01.B2', getattr, box, n, klass='lammps-param')
                if not abs(g - w) <= 1e-12 * (abs(w) + vmax):
                    raise Violation('C01.B2', {'what': 'LAMMPS parameter ' + n, 'got': g, 'want': w}, klass='lammps-param')
        # B5 duality and B4 on fixed points (keeps the cache warm across the next setter)
        if st['cfg']['post_convert']:
            tol = self._conv_tol(st)
            R = ctx.must('C01.B5', getattr, box, 'reciprocal_vects')
            st['warm'] = True
            if not close(np.asarray(R) @ V.T, np.eye(3), atol=max(1e-9, 10 * tol)):
                raise Violation('C01.B5', {'what': 'reciprocal_vects . vects^T != I', 'after': after, 'R': np.asarray(R), 'V': V}, klass='dual')
            cart = geom.rel_to_cart(V, o, FIXED_REL)
            rel = ctx.must('C01.B4', box.position_cartesian_to_relative, cart, klass='cart2rel/array')
            if not close(rel, FIXED_REL, atol=max(4e-9, 10 * tol) * 3):
                raise Violation('C01.B4', {'what': 'cartesian->relative wrong on fixed points', 'after': after, 'got': rel}, klass='cart2rel/value')
            c2 = ctx.must('C01.B4', box.position_relative_to_cartesian, FIXED_REL, klass='rel2cart/array')
            size = vmax + float(np.abs(o).max())
            if not close(c2, cart, atol=max(4e-9, 10 * tol) * 3 * size):
                raise Violation('C01.B4', {'what': 'relative->cartesian wrong on fixed points', 'after': after, 'got': c2}, klass='rel2cart/value')

    def finish(self, ctx, st):
        self._apply_reexpress(ctx, st)

    def simplify(self, op):
        out = []
        if op['op'] == 'query' and np.ndim(op['rel']) > 1:
            flat = np.array(op['rel']).reshape(-1, 3)
            for p in flat[:4]:
                out.append(dict(op, rel=p.tolist()))
        if op.get('as_list'):
            out.append(dict(op, as_list=False))
        if op.get('via') == 'set':
            out.append(dict(op, via='method'))
        return out
