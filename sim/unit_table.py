"""Independent unit table and expression evaluator (oracle for C09/C10/C08).

Written from the SI definitions, not from numericalunits: every entry is
(SI factor, dimension exponents over (m, kg, s, C, K), relative slack).  Slack
is 0 for exactly defined units and 1e-8 for measured constants whose CODATA
value differs between releases (amu, Bohr radius, Rydberg, electron mass).

A quantity with SI value x and dimension d has, in an epoch whose base values
are B = (m, kg, s, C, K) in working units, the working value  x * prod(B**d).
"""

import math

E_CHARGE = 1.602176634e-19          # exact (SI 2019)
N_A = 6.02214076e23                 # exact
K_B = 1.380649e-23                  # exact
H_PLANCK = 6.62607015e-34           # exact
C_0 = 299792458.0                   # exact
MEAS = 1e-8                         # slack for measured constants

L_ = (1, 0, 0, 0, 0)
M_ = (0, 1, 0, 0, 0)
T_ = (0, 0, 1, 0, 0)
Q_ = (0, 0, 0, 1, 0)
TH = (0, 0, 0, 0, 1)
ONE = (0, 0, 0, 0, 0)
ENERGY = (2, 1, -2, 0, 0)
FORCE = (1, 1, -2, 0, 0)
PRESSURE = (-1, 1, -2, 0, 0)
POWER = (2, 1, -3, 0, 0)
CURRENT = (0, 0, -1, 1, 0)
VOLT = (2, 1, -2, -1, 0)
OHM = (2, 1, -1, -2, 0)
FREQ = (0, 0, -1, 0, 0)
VOLUME = (3, 0, 0, 0, 0)

UNITS = {}


def _add(name, factor, dim, slack=0.0):
    UNITS[name] = (float(factor), tuple(dim), float(slack))


for _p, _f in (('', 1.0), ('c', 1e-2), ('m', 1e-3), ('u', 1e-6), ('n', 1e-9), ('p', 1e-12), ('f', 1e-15), ('k', 1e3)):
    _add(_p + 'm', _f, L_)
_add('angstrom', 1e-10, L_)
_add('inch', 0.0254, L_)
_add('L', 1e-3, VOLUME)
_add('mL', 1e-6, VOLUME)
for _p, _f in (('', 1.0), ('m', 1e-3), ('u', 1e-6), ('n', 1e-9), ('p', 1e-12), ('f', 1e-15)):
    _add(_p + 's', _f, T_)
_add('minute', 60.0, T_)
_add('hour', 3600.0, T_)
for _p, _f in (('', 1.0), ('k', 1e3), ('M', 1e6), ('G', 1e9), ('T', 1e12)):
    _add(_p + 'Hz', _f, FREQ)
_add('kg', 1.0, M_)
for _p, _f in (('', 1e-3), ('m', 1e-6), ('u', 1e-9), ('n', 1e-12), ('p', 1e-15), ('f', 1e-18)):
    _add(_p + 'g', _f, M_)
_add('amu', 1.66053906660e-27, M_, MEAS)
_add('Da', 1.66053906660e-27, M_, MEAS)
for _p, _f in (('', 1.0), ('m', 1e-3), ('u', 1e-6), ('n', 1e-9), ('k', 1e3), ('M', 1e6)):
    _add(_p + 'J', _f, ENERGY)
_add('erg', 1e-7, ENERGY)
for _p, _f in (('', 1.0), ('m', 1e-3), ('k', 1e3), ('M', 1e6)):
    _add(_p + 'eV', _f * E_CHARGE, ENERGY)
_add('kcal', 4184.0, ENERGY)
_add('smallcal', 4.184, ENERGY)
_add('mol', N_A, ONE)
_add('NA', N_A, ONE)
for _p, _f in (('', 1.0), ('m', 1e-3), ('u', 1e-6), ('n', 1e-9), ('p', 1e-12), ('k', 1e3)):
    _add(_p + 'N', _f, FORCE)
_add('dyn', 1e-5, FORCE)
for _p, _f in (('', 1.0), ('k', 1e3), ('M', 1e6), ('G', 1e9), ('h', 1e2)):
    _add(_p + 'Pa', _f, PRESSURE)
_add('bar', 1e5, PRESSURE)
_add('mbar', 1e2, PRESSURE)
_add('kbar', 1e8, PRESSURE)
_add('Mbar', 1e11, PRESSURE)
_add('atm', 101325.0, PRESSURE)
_add('W', 1.0, POWER)
_add('kW', 1e3, POWER)
_add('K', 1.0, TH)
_add('mK', 1e-3, TH)
_add('C', 1.0, Q_)
_add('mC', 1e-3, Q_)
_add('uC', 1e-6, Q_)
_add('e', E_CHARGE, Q_)
_add('A', 1.0, CURRENT)
_add('mA', 1e-3, CURRENT)
for _p, _f in (('', 1.0), ('m', 1e-3), ('u', 1e-6), ('k', 1e3)):
    _add(_p + 'V', _f, VOLT)
_add('ohm', 1.0, OHM)
_add('c0', C_0, (1, 0, -1, 0, 0))
_add('hPlanck', H_PLANCK, (2, 1, -1, 0, 0))
_add('hbar', H_PLANCK / (2 * math.pi), (2, 1, -1, 0, 0), 1e-15)
_add('kB', K_B, (2, 1, -2, 0, -1))
_add('aBohr', 5.29177210903e-11, L_, MEAS)
_add('Ry', 2.1798723611035e-18, ENERGY, MEAS)
_add('Hartree', 4.3597447222071e-18, ENERGY, MEAS)
_add('me', 9.1093837015e-31, M_, MEAS)

NAMES_BY_DIM = {}
for _n, (_f, _d, _s) in UNITS.items():
    NAMES_BY_DIM.setdefault(_d, []).append(_n)
for _d in NAMES_BY_DIM:
    NAMES_BY_DIM[_d].sort()


class ExprError(Exception):
    pass


class _Parser:
    """Recursive descent: expr := term (('*'|'/') term)* ; term := atom ('^' atom)? ;
    atom := name | number | '(' expr ')'.  Returns (factor, dim, slack)."""

    def __init__(self, text, base=None):
        self.t = text
        self.i = 0
        self.base = base
        self.extreme = 0.0          # largest |log10| of any intermediate value (SI and working)

    def _seen(self, v):
        f, d, s = v
        try:
            mags = [abs(math.log10(abs(f)))]
            if self.base is not None:
                mags.append(abs(math.log10(abs(f)) + sum(p * math.log10(b) for b, p in zip(self.base, d))))
                mags.append(abs(sum(p * math.log10(b) for b, p in zip(self.base, d))))
                mags += [abs(p * math.log10(b)) for b, p in zip(self.base, d)]
            self.extreme = max(self.extreme, max(mags))
        except (ValueError, TypeError, OverflowError):
            self.extreme = float('inf')
        return v

    def ws(self):
        while self.i < len(self.t) and self.t[self.i] in ' \t\r\n':
            self.i += 1

    def parse(self):
        v = self.expr()
        self.ws()
        if self.i != len(self.t):
            raise ExprError('trailing text at %d' % self.i)
        return v

    def expr(self):
        f, d, s = self.term()
        while True:
            self.ws()
            if self.i < len(self.t) and self.t[self.i] in '*/':
                op = self.t[self.i]
                self.i += 1
                f2, d2, s2 = self.term()
                if op == '*':
                    f, d = f * f2, tuple(a + b for a, b in zip(d, d2))
                else:
                    f, d = f / f2, tuple(a - b for a, b in zip(d, d2))
                s = s + s2
                self._seen((f, d, s))
            else:
                return f, d, s

    def term(self):
        f, d, s = self.atom()
        self.ws()
        if self.i < len(self.t) and self.t[self.i] == '^':
            self.i += 1
            p, pd, ps = self.atom()
            if any(pd):
                raise ExprError('exponent carries a dimension')
            f, d, s = f ** p, tuple(a * p for a in d), s * abs(p) + ps
        return self._seen((f, d, s))

    def atom(self):
        self.ws()
        if self.i >= len(self.t):
            raise ExprError('unexpected end')
        c = self.t[self.i]
        if c == '(':
            self.i += 1
            v = self.expr()
            self.ws()
            if self.i >= len(self.t) or self.t[self.i] != ')':
                raise ExprError('missing )')
            self.i += 1
            return v
        j = self.i
        while j < len(self.t) and self.t[j] not in ' \t\r\n*/^()':
            j += 1
        tok = self.t[self.i:j]
        if not tok:
            raise ExprError('empty token at %d' % self.i)
        self.i = j
        if tok[0].isalpha():
            if tok not in UNITS:
                raise ExprError('unknown unit ' + tok)
            return UNITS[tok]
        return float(tok), ONE, 0.0


def evaluate(text):
    """(SI factor, dimension exponents, relative slack) of a unit expression."""
    return _Parser(text).parse()


def evaluate_bounded(text, base):
    """As evaluate(), plus the largest |log10| magnitude any intermediate reaches in SI or
    in the epoch `base`: callers skip expressions that leave the range where float64
    keeps full precision (denormals lose digits and would be blamed on the parser)."""
    p = _Parser(text, base)
    f, d, s = p.parse()
    p._seen((f, d, s))
    return f, d, s, p.extreme


def working_value(si_factor, dim, base):
    """Value in working units of a quantity with the given SI factor and dimension,
    in an epoch whose base values (m, kg, s, C, K) are `base`.

    The product si_factor * prod(base**p) is formed on (mantissa, binary exponent) pairs: multiplying the
    floats one after the other can pass through the denormal range although the result is an ordinary
    number (seen once in 200 000 runs: 5e-95 * 1e-120 * 7.6e-108 = 3.85e-322 on the way to 4.9e-107, which cost
    four digits and was blamed on the parser)."""
    import math
    if si_factor == 0 or not math.isfinite(si_factor):
        v = si_factor
        for b, p in zip(base, dim):
            if p:
                v *= b ** p
        return v
    m, e = math.frexp(si_factor)
    for b, p in zip(base, dim):
        if not p:
            continue
        ip = int(math.floor(p)) if p >= 0 else -int(math.floor(-p))
        fp = p - ip
        mb, eb = math.frexp(b)
        if ip:
            # mb in [0.5, 1): mb**ip stays an ordinary number for any exponent a unit expression reaches
            k = abs(ip)
            while k:
                step = min(k, 60)
                t = mb ** step
                if ip > 0:
                    m *= t
                    e += eb * step
                else:
                    m /= t
                    e -= eb * step
                m, de = math.frexp(m)
                e += de
                k -= step
        if fp:
            m *= b ** fp
            m, de = math.frexp(m)
            e += de
    return math.ldexp(m, e)


def base_of(nu):
    return (float(nu.m), float(nu.kg), float(nu.s), float(nu.C), float(nu.K))


# ---- names added in round 8 -------------------------------------------------------------------------------
# non-ASCII spellings numericalunits also defines (same quantities as their ASCII twins), four more constants
# (CODATA 2022 values as published; measured ones get the MEAS slack) and the astronomical units (IAU definitions,
# nominal solar and Earth masses, the sidereal year numericalunits uses)
def _more_units():
    U = UNITS
    U['Å'] = U['angstrom']
    U['Ω'] = U['ohm']
    U['ħ'] = U['hbar']
    for pre, f in (('m', 1e-3), ('k', 1e3), ('M', 1e6), ('G', 1e9)):
        U[pre + 'Ω'] = (U['ohm'][0] * f, U['ohm'][1], U['ohm'][2])
    U['mu0'] = U['μ0'] = (1.25663706127e-06, (1, 1, 0, -2, 0), 1e-8)
    U['eps0'] = U['ε0'] = (8.8541878188e-12, (-3, -1, 2, 2, 0), 1e-8)
    U['sigmaSB'] = U['σSB'] = (5.670374419184429e-08, (0, 1, -3, 0, -4), 1e-12)
    U['alphaFS'] = U['αFS'] = (0.0072973525643, (0, 0, 0, 0, 0), 1e-8)
    U['astro_unit'] = (149597870700.0, (1, 0, 0, 0, 0), 0.0)
    U['pc'] = (149597870700.0 * 648000.0 / 3.141592653589793, (1, 0, 0, 0, 0), 1e-15)
    U['lightyear'] = (9460730472580800.0, (1, 0, 0, 0, 0), 0.0)
    U['Msolar'] = (1.98847e+30, (0, 1, 0, 0, 0), 0.0)
    U['MEarth'] = (5.9722e+24, (0, 1, 0, 0, 0), 0.0)
    U['day'] = (86400.0, (0, 0, 1, 0, 0), 0.0)
    U['week'] = (604800.0, (0, 0, 1, 0, 0), 0.0)
    U['year'] = (365.256363004 * 86400.0, (0, 0, 1, 0, 0), 1e-12)


_more_units()
