"""Determinism self-test: the same run seeds must give the same event-log
digests (a) twice in separate interpreters, (b) with 1 worker and with 16,
(c) under a different PYTHONHASHSEED.

Usage: ./bin/check --selftest-determinism [PROP ...]   (all engines if none given)
"""

import os
import subprocess
import sys
import tempfile

PY = '/venv/bin/python'


def _run(prop, runs, workers, hashseed, out, chunk=None):
    env = dict(os.environ)
    env['PYTHONHASHSEED'] = hashseed
    if chunk:
        env['VERIF_CHUNK'] = str(chunk)
    cmd = [PY, '-B', '-m', 'sim.cli', prop, '--runs', str(runs), '--workers', str(workers),
           '--no-evidence', '--no-minimise', '--digests', out, '--budget', '600']
    r = subprocess.run(cmd, env=env, stdout=subprocess.PIPE, stderr=subprocess.STDOUT, text=True)
    return r.returncode, r.stdout


def main(args):
    from sim.cli import REGISTRY
    props = [args.prop] if args.prop else sorted(REGISTRY)
    runs = args.runs or 200
    bad = 0
    for prop in props:
        try:
            __import__(REGISTRY[prop][0])
        except ImportError:
            print('%s: engine not built yet, skipped' % prop)
            continue
        with tempfile.TemporaryDirectory(prefix='verif-det.') as d:
            # the last variant runs every history in its own forked process: equal digests mean that no run of the
            # sample depends on state left in the process by the runs before it
            variants = [('w16-h0-a', 16, '0', None), ('w16-h0-b', 16, '0', None), ('w1-h0', 1, '0', None),
                        ('w5-h12345', 5, '12345', None), ('w16-isolated', 16, '0', 1)]
            outs = {}
            for name, w, hs, chunk in variants:
                path = os.path.join(d, name)
                rc, text = _run(prop, runs, w, hs, path, chunk)
                if rc == 2 or not os.path.isfile(path):
                    print('%s: %s harness error\n%s' % (prop, name, text[-2000:]))
                    bad += 1
                    outs[name] = None
                    continue
                with open(path) as f:
                    outs[name] = f.read()
            ref = outs['w16-h0-a']
            diff = [n for n in outs if outs[n] != ref]
            nlines = len(ref.splitlines()) if ref else 0
            if diff or not ref:
                bad += 1
                print('%s: NON-DETERMINISTIC: variants %s differ from w16-h0-a (%d runs)' % (prop, diff, nlines))
                for n in diff:
                    if outs[n] and ref:
                        a, b = ref.splitlines(), outs[n].splitlines()
                        d_ = [x.split()[0] for x, y in zip(a, b) if x != y]
                        print('   %s: first differing run indices %s' % (n, d_[:10]))
            else:
                print('%s: deterministic over %d runs x %d variants (workers 16/16/1/5/16, PYTHONHASHSEED 0/0/0/12345/0, last variant one process per run)'
                      % (prop, nlines, len(variants)))
    return 0 if bad == 0 else 2
