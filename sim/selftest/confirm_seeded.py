#!/venv/bin/python
"""Confirms a sub-agent's seeded change before it is kept under /verif/seeded.

  /venv/bin/python -m sim.selftest.confirm_seeded <worktree> <outdir> <name>

In the scratch worktree (clean): demo passes; apply patch; (rebuild extensions if a
.pyx changed); baseline tests still pass; demo fails; revert; demo passes again.
On success copies patch.diff, demo.py, meta.json (augmented with what was run) to
/verif/seeded/<name>/.
"""

import json
import os
import shutil
import subprocess
import sys

PY = '/venv/bin/python'
VERIF = os.path.dirname(os.path.dirname(os.path.dirname(os.path.abspath(__file__))))


def sh(cmd, cwd, env=None, timeout=1800):
    r = subprocess.run(cmd, cwd=cwd, env=env, shell=isinstance(cmd, str), stdout=subprocess.PIPE, stderr=subprocess.STDOUT,
                       text=True, timeout=timeout)
    return r.returncode, r.stdout


def main():
    wt, out, name = sys.argv[1:4]
    env = dict(os.environ, PYTHONPATH=wt, PYTHONWARNINGS='ignore')
    patch = os.path.join(out, 'patch.diff')
    demo = os.path.join(out, 'demo.py')
    ran = []

    def step(label, cmd, want_zero):
        rc, text = sh(cmd, wt, env)
        ok = (rc == 0) == want_zero
        ran.append({'step': label, 'cmd': cmd if isinstance(cmd, str) else ' '.join(cmd), 'rc': rc, 'ok': ok,
                    'tail': text.strip().splitlines()[-1][:300] if text.strip() else ''})
        print('%-28s rc=%d %s  %s' % (label, rc, 'ok' if ok else 'UNEXPECTED', ran[-1]['tail']))
        return ok, text

    sh('git checkout -q -- .', wt)
    rc, st = sh('git status --porcelain --untracked-files=no', wt)
    if st.strip():
        print('worktree not clean'); return 2
    if not os.path.exists(os.path.join(wt, 'atomman/core/dvect' + '.c')) and not any(
            f.endswith('.so') for f in os.listdir(os.path.join(wt, 'atomman/core'))):
        step('build', PY + ' setup.py -q build_ext --inplace -j 8', True)
    good = True
    ok, _ = step('demo on clean tree', [PY, demo], True); good &= ok
    ok, _ = step('apply patch', 'git apply ' + patch, True); good &= ok
    with open(patch) as f:
        ptxt = f.read()
    pyx = '.pyx' in ptxt
    if pyx:
        step('rebuild (pyx changed)', PY + ' setup.py -q build_ext --inplace -j 8', True)
    ok, text = step('baseline tests with change', PY + ' -m pytest -q -p no:cacheprovider --timeout=900 --continue-on-collection-errors tests', True)
    good &= ok
    npass = [ln for ln in text.splitlines() if ' passed' in ln]
    if not any('86 passed' in ln for ln in npass):
        print('   tests: %s' % npass[-1:] )
        good = False
    ok, _ = step('demo with change', [PY, demo], False); good &= ok
    sh('git checkout -q -- .', wt)
    if pyx:
        step('rebuild (reverted)', PY + ' setup.py -q build_ext --inplace -j 8', True)
    ok, _ = step('demo after revert', [PY, demo], True); good &= ok
    if not good:
        print('NOT CONFIRMED: %s' % name)
        return 1
    dest = os.path.join(VERIF, 'seeded', name)
    os.makedirs(dest, exist_ok=True)
    if os.path.abspath(out) != os.path.abspath(dest):
        shutil.copy(patch, os.path.join(dest, 'patch.diff'))
        shutil.copy(demo, os.path.join(dest, 'demo.py'))
    meta = {}
    mp = os.path.join(out, 'meta.json')
    if os.path.exists(mp):
        try:
            with open(mp) as f:
                meta = json.load(f)
        except ValueError:
            meta = {}
    meta['confirmed'] = ran
    meta.setdefault('property', name.split('-')[0])
    with open(os.path.join(dest, 'meta.json'), 'w') as f:
        json.dump(meta, f, indent=1)
    print('CONFIRMED: %s -> %s' % (name, dest))
    return 0


if __name__ == '__main__':
    sys.exit(main())
