#!/venv/bin/python
"""Sensitivity self-test (development instrument, not a registered check).

Each mutant is a small edit of /repo that breaks one claimed property.  The
tool copies /repo's package to a scratch directory, applies the edit, runs the
owning check's quick tier against the copy (--repo) and expects exit 1.
With --with-tests it also runs the repository's baseline tests in the copy to
confirm the mutant survives them.

  /venv/bin/python -m sim.selftest.mutants [--only M01.1,M01.2] [--prop C01] [--with-tests] [--seeded]
"""

import argparse
import glob
import json
import os
import shutil
import subprocess
import sys
import tempfile
import time

VERIF = os.path.dirname(os.path.dirname(os.path.dirname(os.path.abspath(__file__))))
REPO = '/repo'
PY = '/venv/bin/python'

# (id, property, file, old, new, note)
MUTANTS = []


def M(mid, prop, path, old, new, note='', nth=None, expect='detected'):
    """nth=None: `old` must occur exactly once.  nth=k (1-based): replace the k-th occurrence."""
    MUTANTS.append({'id': mid, 'prop': prop, 'file': path, 'old': old, 'new': new, 'note': note, 'nth': nth, 'expect': expect})


# ---- C01 -------------------------------------------------------------------
M('M01.1', 'C01', 'atomman/core/Box.py',
  "        # Reset reciprocal_vects\n        self.__reciprocal_vects = None\n\n    @property\n    def reciprocal_vects",
  "        # Reset reciprocal_vects\n\n    @property\n    def reciprocal_vects",
  'vects setter no longer clears the reciprocal cache')
M('M01.2', 'C01', 'atomman/core/Box.py',
  "yz = (b * c * np.cos(alpha * np.pi / 180) - xy * xz) / ly",
  "yz = (b * c * np.cos(alpha * np.pi / 180) + xy * xz) / ly", 'set_abc yz sign')
M('M01.3', 'C01', 'atomman/core/Box.py',
  "        origin = [xlo, ylo, zlo]\n", "        origin = [0.0, 0.0, 0.0]\n", 'set_hi_los drops origin')
M('M01.4', 'C01', 'atomman/core/Box.py',
  '"""numpy.ndarray : Array containing all three box vectors.  Can be set directly."""\n        return deepcopy(self.__vects)',
  '"""numpy.ndarray : Array containing all three box vectors.  Can be set directly."""\n        return self.__vects',
  'vects getter returns storage')
M('M01.5', 'C01', 'atomman/core/Box.py',
  "    def origin(self, value: npt.ArrayLike):\n        self.__origin[:] = value",
  "    def origin(self, value: npt.ArrayLike):\n        self.__origin = np.asarray(value, dtype=float)",
  'origin setter binds the caller array when it is already a float array')
M('M01.6', 'C01', 'atomman/region/Plane.py',
  "        if inclusive:\n            return normpos <= normpoint\n        else:\n            return normpos < normpoint",
  "        if inclusive:\n            return normpos < normpoint\n        else:\n            return normpos <= normpoint",
  'below(inclusive) flag inverted')
M('M01.7', 'C01', 'atomman/core/Box.py',
  "return np.abs(np.dot(self.avect, np.cross(self.bvect, self.cvect)))",
  "return np.abs(self.a * self.b * self.c)", 'volume = a*b*c (right for orthogonal cells only)')
M('M01.8', 'C01', 'atomman/core/Box.py',
  "return relpos.dot(self.vects) + self.origin", "return relpos.dot(self.vects.T) + self.origin",
  'rel->cart uses the transpose (right for symmetric/diagonal cells)')
M('M01.9', 'C01', 'atomman/core/Box.py',
  "            self.set(avect=avect, bvect=bvect, cvect=cvect, origin=origin)\n",
  "            self.set(avect=avect, bvect=bvect, cvect=cvect)\n", 'model read drops the origin')
M('M01.10', 'C01', 'atomman/core/Box.py',
  "        return self.__origin[0] + self.__vects[0,0]", "        return self.__vects[0,0]",
  'xhi ignores origin')

# ---- C06 -------------------------------------------------------------------
M('M06.1', 'C06', 'atomman/core/Atoms.py',
  "            if key in self.keys():\n                self[key][:] = value\n",
  "            if key in self.keys():\n                super(Atoms.PropertyDict, self).__setitem__(key, value)\n",
  'existing key re-bound instead of overwritten in place (attribute/view diverge)')
M('M06.2', 'C06', 'atomman/core/Atoms.py',
  "                if index is None:\n                    return deepcopy(self.view[key])\n",
  "                if index is None:\n                    return self.view[key]\n", 'prop(key) returns storage')
M('M06.3', 'C06', 'atomman/core/Atoms.py',
  "        if intnum == -1:\n            return slice(intnum, None)\n        else:\n            return slice(intnum, intnum+1)",
  "        return slice(intnum, intnum+1)", '__intslice loses the -1 case')
M('M06.4', 'C06', 'atomman/core/Atoms.py',
  "newatoms.view[prop] = np.zeros((newatoms.natoms, ) + atoms.view[prop][0].shape",
  "newatoms.view[prop] = np.ones((newatoms.natoms, ) + atoms.view[prop][0].shape",
  'extend fills missing properties of the old atoms with ones')
M('M06.5', 'C06', 'atomman/core/System.py',
  "        if len(self.__symbols) < self.__atoms.natypes:\n            self.symbols = self.__symbols\n        return self.__symbols",
  "        if len(self.__symbols) < self.__atoms.natypes - 1:\n            self.symbols = self.__symbols\n        return self.__symbols",
  'symbols padded lazily only when two or more short')
M('M06.6', 'C06', 'atomman/core/System.py',
  "                host.atoms[index] = value.atoms\n", "                host.atoms[:] = value.atoms\n",
  'atoms_ix.__setitem__ ignores the index for System sources')
M('M06.7', 'C06', 'atomman/core/System.py',
  "atoms.pos[self.natoms:] = self.box.position_relative_to_cartesian(value.pos)",
  "atoms.pos[value.natoms:] = self.box.position_relative_to_cartesian(value.pos)", 'revert of fix 59eb9b5')
M('M06.8', 'C06', 'atomman/core/Atoms.py',
  "dtype=atoms.view[prop].dtype)", "dtype=atoms.view[prop][0].dtype)", 'revert of fix 62798d6')
M('M06.9', 'C06', 'atomman/core/Atoms.py',
  "            if np.may_share_memory(self.view[key], newvalues):\n                newvalues = np.array(newvalues)\n", "",
  'revert of fix dc7dd8e')
M('M06.10', 'C06', 'atomman/core/Atoms.py',
  "self.view[key] = np.zeros((self.natoms,) + np.shape(value), dtype=np.asarray(value).dtype)",
  "self.view[key] = np.zeros_like(value)", 'revert of fix 8bfaa8c')
M('M06.11', 'C06', 'atomman/core/Atoms.py',
  "                    self.view[key] = deepcopy(value)\n", "                    self.view[key] = value\n",
  'prop(key, value=) binds the caller array for a new key')
M('M06.12', 'C06', 'atomman/core/Atoms.py',
  "                self.view[key] = value[self.atype - 1]", "                self.view[key] = value[self.atype - self.atype.min()]",
  'prop_atype vector form offsets by the smallest type present')
M('M06.13', 'C06', 'atomman/core/System.py',
  "        if safecopy:\n            box = deepcopy(self.box)\n        else:\n            box = self.box\n",
  "        box = self.box\n", 'atoms_extend(safecopy=True) shares the box')
M('M06.14', 'C06', 'atomman/core/Atoms.py',
  "                else:\n                    return deepcopy(self.view[key][index])", "                else:\n                    return self.view[key][index]",
  'prop(key, index) returns a view for slice/int index')
M('M06.15', 'C06', 'atomman/core/System.py',
  "            elif safecopy:\n                atoms = deepcopy(atoms)\n", "            elif safecopy and atoms.natoms > 4:\n                atoms = deepcopy(atoms)\n",
  'System(safecopy=True) skips the copy for small systems')

# ---- C15 -------------------------------------------------------------------
M('M15.1', 'C15', 'atomman/defect/point.py', "d_system = System(box=deepcopy(system.box), pbc=deepcopy(system.pbc),",
  "d_system = System(box=system.box, pbc=deepcopy(system.pbc),", 'vacancy result shares the input Box', nth=1)
M('M15.2', 'C15', 'atomman/defect/point.py', "    if 'old_id' not in d_system.atoms_prop():\n        d_system.atoms.old_id = index",
  "    if True:\n        d_system.atoms.old_id = index", 'vacancy always rewrites old_id (map does not compose)', nth=1)
M('M15.3', 'C15', 'atomman/defect/point.py', "        if ptd_id < 0:\n            ptd_id += system.natoms\n        if ptd_id < 0 or ptd_id >= system.natoms:",
  "        if ptd_id < -system.natoms or ptd_id >= system.natoms:", 'substitutional: negative ptd_id not normalised', nth=2)
M('M15.4', 'C15', 'atomman/defect/point.py',
  "dist = np.linalg.norm(np.atleast_2d(system.dvect(np.asarray(pos, dtype=float), system.atoms.pos)), axis=1)",
  "dist = np.linalg.norm(np.atleast_2d(system.atoms.pos - np.asarray(pos, dtype=float)), axis=1)",
  'interstitial occupied-site test ignores periodic images', nth=2)
M('M15.5', 'C15', 'atomman/defect/point.py', "    index.pop(ptd_id)\n    index.append(ptd_id)\n    \n    # Build new system",
  "    index[ptd_id], index[-1] = index[-1], index[ptd_id]\n    \n    # Build new system",
  'substitutional swaps with the last atom instead of moving to the end (order of others changes)')
M('M15.6', 'C15', 'atomman/defect/point.py',
  "db_vect = np.asarray(db_vect, dtype=float).dot(system.box.vects)", "db_vect = system.box.position_relative_to_cartesian(db_vect)",
  'revert of the dumbbell origin fix')
M('M15.7', 'C15', 'atomman/defect/point.py',
  "d_system.atoms.atype[-1] = kwargs.pop('atype', 1)", "d_system.atoms.atype[-1] = kwargs.pop('atype', d_system.atoms.atype[-1])",
  'interstitial default type is that of atom 0, not 1')
M('M15.8', 'C15', 'atomman/defect/point.py',
  "            d_system.atoms.pos[-2] -= db_vect\n            d_system.atoms.pos[-1] += db_vect",
  "            d_system.atoms.pos[-2] += db_vect\n            d_system.atoms.pos[-1] -= db_vect", 'dumbbell signs swapped')
M('M15.9', 'C15', 'atomman/defect/point.py', "        if len(ptd_id) == 1 and len(ptd_id[0]) == 1:",
  "        if len(ptd_id) == 1 and len(ptd_id[0]) >= 1:", 'vacancy accepts an ambiguous site (takes the first match)', nth=1)
M('M15.10', 'C15', 'atomman/defect/point.py', "    index.append(ptd_id)\n    index.append(ptd_id)\n",
  "    index.append(ptd_id)\n    index.append(ptd_id)\n    system.atoms.pos[ptd_id] += 1e-13\n", 'dumbbell nudges the input system by 1e-13')
M('M15.11', 'C15', 'atomman/defect/point.py',
  "dist = np.linalg.norm(np.atleast_2d(system.dvect(np.asarray(pos, dtype=float), system.atoms.pos)), axis=1)",
  "dist = np.linalg.norm(system.dvect(np.asarray(pos, dtype=float), system.atoms.pos), axis=1)", 'revert of one-atom fix (dumbbell)', nth=4)
M('M15.12', 'C15', 'atomman/defect/point.py',
  "dist = np.linalg.norm(np.atleast_2d(system.dvect(np.asarray(pos, dtype=float), system.atoms.pos)), axis=1)",
  "dist = np.linalg.norm(np.atleast_2d(system.dvect(pos, system.atoms.pos)), axis=1)", 'revert of integer-pos fix (vacancy)', nth=1)
M('M15.13', 'C15', 'atomman/defect/point.py',
  "d_system.atoms.view[prop][-1] = kwargs.pop(prop,\n                                                       np.zeros_like(d_system.atoms.view[prop][-1]))",
  "d_system.atoms.view[prop][-1] = kwargs.pop(prop,\n                                                       d_system.atoms.view[prop][-1])",
  'interstitial: unspecified properties copied from atom 0 instead of zero')
M('M15.14', 'C15', 'atomman/defect/point.py', "        return vacancy(system, pos=pos, ptd_id=ptd_id, scale=scale, atol=atol)",
  "        return vacancy(system, pos=pos, ptd_id=ptd_id, scale=scale)", 'point() drops atol for vacancies')

# ---- C09 -------------------------------------------------------------------
# M09.1 (named reset without the SI baseline) was dropped: unit ratios are epoch independent, so every CHOSEN unit
# still evaluates to one and the statement holds; only unchosen base units keep their previous values.
M('M09.2', 'C09', 'atomman/unitconvert.py',
  "        # Compute powers\n        while '^' in terms:\n            c = terms.index('^')\n            value = [terms[c-1] ** terms[c+1]]\n            terms = terms[:c-1] + value + terms[c+2:]\n",
  "", '^ no longer binds tighter: powers handled... never (raises) ')
M('M09.3', 'C09', 'atomman/unitconvert.py',
  "            if terms[1] == '*':\n                value = [terms[0] * terms[2]]\n                terms = value + terms[3:]\n            elif terms[1] == '/':\n                value = [terms[0] / terms[2]]\n                terms = value + terms[3:]",
  "            if terms[-2] == '*':\n                value = [terms[-3] * terms[-1]]\n                terms = terms[:-3] + value\n            elif terms[-2] == '/':\n                value = [terms[-3] / terms[-1]]\n                terms = terms[:-3] + value",
  '* and / evaluated right to left')
M('M09.4', 'C09', 'atomman/lammps/style.py', "        params['pressure'] =            'pg/(um*us^2)'", "        params['pressure'] =            'pg/(um^2*us^2)'",
  'micro pressure entry has the wrong dimension')
M('M09.5', 'C09', 'atomman/unitconvert.py', "            nu.C = unit['C'] / unit[kwargs['charge']]", "            nu.C = unit[kwargs['charge']] / unit['C']",
  'charge base inverted')
M('M09.6', 'C09', 'atomman/unitconvert.py', "nu.m = (J * nu.s**2 / nu.kg)**0.5", "nu.m = (J * nu.s**2 / nu.kg)", 'revert of the sqrt fix')
M('M09.7', 'C09', 'atomman/unitconvert.py', "        # Rebuild derived units and unit dictionary\n        nu.set_derived_units_and_constants()\n        build_unit()",
  "        # Rebuild derived units and unit dictionary\n        nu.set_derived_units_and_constants()", 'unit dictionary not rebuilt after a named reset (stale table)')
M('M09.8', 'C09', 'atomman/unitconvert.py', "            value = [terms[c-1] ** terms[c+1]]", "            value = [terms[c-1] ** abs(terms[c+1])]", 'negative exponents lose their sign')
M('M09.9', 'C09', 'atomman/unitconvert.py', "            elif units[i] in ' \\n\\r\\t':\n                i += 1", "            elif units[i] in ' \\n\\r':\n                i += 1",
  'tab no longer accepted as blank')
M('M09.10', 'C09', 'atomman/unitconvert.py', "    if (len(kwargs) == 0):\n        \n        nu.reset_units(seed)\n        build_unit()",
  "    if (len(kwargs) == 0):\n        \n        nu.reset_units(seed)\n        if seed is not None or 'unit' not in globals():\n            build_unit()", 'unseeded random reset leaves the old dictionary')
M('M09.11', 'C09', 'atomman/lammps/style.py', "        params['velocity'] =            '2*Ry*aBohr/hbar'", "        params['velocity'] =            '2*Ry/aBohr/hbar'",
  'electron velocity entry dimension')
M('M09.12', 'C09', 'atomman/unitconvert.py', "                nu.s = (nu.kg * nu.m**2 / J)**0.5", "                nu.s = (nu.kg * nu.m**2 / J)", 'time derived without root')
M('M09.13', 'C09', 'atomman/unitconvert.py', "        for name in kwargs.values():\n            unit[name]\n", "        pass\n",
  'revert bf88cda: an unknown unit name is found only after the working units were reset to SI')

# ---- C10 -------------------------------------------------------------------
M('M10.1', 'C10', 'atomman/unitconvert.py', "        datamodel['shape'] = list(shape)", "        datamodel['shape'] = list(shape)[::-1]",
  'shape stored reversed (rank >= 2, non-square)')
M('M10.2', 'C10', 'atomman/core/Box.py', "            model['box']['origin']= uc.model(self.origin, length_unit)", "            model['box']['origin']= uc.model(self.origin, None)",
  'origin stored without a unit (only visible across a restart)')
M('M10.3', 'C10', 'atomman/core/System.py',
  "                if prop['data'].get('unit', None) == 'scaled':\n                    self.atoms.view[prop['name']] = self.box.position_relative_to_cartesian(self.atoms.view[prop['name']])",
  "                if prop['data'].get('unit', None) == 'scaled' and prop['name'] == 'pos':\n                    self.atoms.view[prop['name']] = self.box.position_relative_to_cartesian(self.atoms.view[prop['name']])",
  'scaled properties other than pos are not unscaled on read')
M('M10.4', 'C10', 'atomman/core/System.py', "        for symbol in self.symbols:\n            model['atomic-system'].append('atom-type-symbol', symbol)",
  "        for symbol in self.symbols:\n            if symbol is not None:\n                model['atomic-system'].append('atom-type-symbol', symbol)",
  'None symbols dropped when writing (gapped types shift)')
M('M10.5', 'C10', 'atomman/unitconvert.py', "        value = set_in_units(term['value'], unit)\n    \n    if 'shape' in term:\n        shape = tuple(term['shape'])\n        value = value.reshape(shape)\n    \n    return value\n    \ndef error_unit",
  "        value = get_in_units(term['value'], unit)\n    \n    if 'shape' in term:\n        shape = tuple(term['shape'])\n        value = value.reshape(shape)\n    \n    return value\n    \ndef error_unit",
  'value_unit divides instead of multiplies (invisible when the unit is a working unit)')
M('M10.6', 'C10', 'atomman/core/System.py', "        model['atomic-system']['periodic-boundary-condition'] = self.pbc.tolist()",
  "        model['atomic-system']['periodic-boundary-condition'] = sorted(self.pbc.tolist())", 'pbc flags sorted')
M('M10.7', 'C10', 'atomman/core/ElasticConstants.py', "            model['elastic-constants']['Cij'] = uc.model(normCij, unit)",
  "            model['elastic-constants']['Cij'] = uc.model(np.triu(normCij), unit)", 'only the upper triangle of Cij is stored')
M('M10.8', 'C10', 'atomman/core/Atoms.py', "        if 'pos' in prop_unit and prop_unit['pos'] is None:\n            prop_unit['pos'] = 'angstrom'",
  "        if 'pos' in prop_unit and prop_unit['pos'] is None:\n            pass", 'pos default unit dropped (positions stored unit-less)')
M('M10.9', 'C10', 'atomman/unitconvert.py', "        datamodel['value'] = value.flatten().tolist()", "        datamodel['value'] = value.flatten(order='F').tolist()",
  'higher-rank arrays flattened in Fortran order')
M('M10.10', 'C10', 'atomman/core/System.py', "            if masses is None:\n                masses = tuple(model.aslist('atom-type-mass'))",
  "            if masses is None:\n                masses = tuple(m for m in model.aslist('atom-type-mass') if m is not None)", 'None masses dropped on read')
M('M10.11', 'C10', 'atomman/unitconvert.py', "        datamodel['value'] = value.tolist()\n        if error is not None:\n            datamodel['error'] = np.asarray(error).tolist()",
  "        datamodel['value'] = value\n        if error is not None:\n            datamodel['error'] = error", 'revert of the scalar-as-Python-number fix')
M('M10.12', 'C10', 'atomman/core/Box.py', "            self.set(avect=avect, bvect=bvect, cvect=cvect, origin=origin)", "            self.set(avect=avect, bvect=cvect, cvect=bvect, origin=origin)",
  'b and c vectors swapped on read')

# ---- C08 -------------------------------------------------------------------
M('M08.1', 'C08', 'atomman/load/atom_data/load.py', "            system.atoms.pos[:] += shift", "            system.atoms.pos[:] -= shift",
  'image-flag shift sign (only atoms outside the cell)')
M('M08.2', 'C08', 'atomman/load/atom_dump/load.py', "                        xlo = xlo - min((0.0, xy, xz, xy + xz))", "                        xlo = xlo - max((0.0, xy, xz, xy + xz))",
  'dump bounding-box correction uses max for lo (only tilted)')
M('M08.3', 'C08', 'atomman/load/table/load.py', "    if 'id' in df:\n        df = df.sort_values('id')", "    if 'id' in df:\n        pass",
  'table rows no longer sorted by id')
M('M08.4', 'C08', 'atomman/load/atom_data/load.py',
  "            try:\n                comment_index = fullline.index('#')\n            except:\n                line = fullline\n            else:\n                line = fullline[:comment_index]",
  "            line = fullline", 'header comments no longer stripped', nth=1)
M('M08.5', 'C08', 'atomman/load/atom_data/load.py', "    if atomsstart is None:\n        raise FileFormatError('Atoms section missing')", "    if atomsstart is None:\n        pass",
  'missing Atoms section accepted')
M('M08.6', 'C08', 'atomman/dump/table/dump.py', "                df[pname + istr] = uc.get_in_units(df[pname + istr], prop['unit'])",
  "                df[pname + istr] = uc.set_in_units(df[pname + istr], prop['unit'])", 'table writer converts the wrong way (invisible when the factor is 1)')
M('M08.7', 'C08', 'atomman/load/atom_data/load.py', "    if isinstance(data, io.IOBase):\n        data = data.read()\n\n    system, params", "    system, params",
  'revert of the open-stream fix (atom_data)')
M('M08.8', 'C08', 'atomman/load/atom_data/load.py', "            imageflags = imageflags.sort_values('id')[['bx', 'by', 'bz']]", "            imageflags = imageflags[['bx', 'by', 'bz']]",
  'revert of the image-flag order fix')
M('M08.9', 'C08', 'atomman/load/poscar/load.py', "    avect = np.array(lines[2].split(), dtype='float64') * box_scale", "    avect = np.array(lines[2].split(), dtype='float64')",
  'POSCAR scale factor not applied to the first vector')
M('M08.10', 'C08', 'atomman/load/poscar/load.py', "    if style[0] in 'cCkK':", "    if style[0] in 'cC':", 'POSCAR k/K cartesian flag not recognised')
M('M08.11', 'C08', 'atomman/load/atom_dump/load.py', "                            if terms[i + len(terms) - 3] != 'pp':", "                            if terms[i + len(terms) - 3] == 'ff':",
  'dump periodic flags: fm read as periodic')
M('M08.12', 'C08', 'atomman/dump/atom_data/dump.py', "    content += xf2 % (ylo, yhi) +' ylo yhi\\n'", "    content += xf2 % (ylo, yhi) +' ylo yhi \\n'", 'NEGATIVE CONTROL: harmless trailing blank', expect='clean')
M('M08.13', 'C08', 'atomman/load/atom_data/load.py', "                    xz = uc.set_in_units(float(terms[1]), units_dict['length'])\n                    yz = uc.set_in_units(float(terms[2]), units_dict['length'])",
  "                    xz = uc.set_in_units(float(terms[2]), units_dict['length'])\n                    yz = uc.set_in_units(float(terms[1]), units_dict['length'])", 'xz and yz swapped on read')
M('M08.14', 'C08', 'atomman/dump/atom_dump/dump.py', "            if prop['unit'] is not None and prop['unit'] != 'scaled':", "            if prop['unit'] is not None and prop['unit'] != 'scaled' and pname != 'velocity':",
  'dump writer forgets to convert velocities')
M('M08.15', 'C08', 'atomman/load/atom_data/load.py', "                if len(terms) == 2 and terms[1] == 'atoms':", "                if len(terms) >= 2 and terms[1] == 'atoms':",
  'NEGATIVE CONTROL: natoms line matched loosely; a later real count line overrides it', expect='clean')


# ---- C19 -------------------------------------------------------------------
LOGPY = 'atomman/lammps/Log.py'
RUNPY = 'atomman/lammps/run.py'
M('M19.1', 'C19', LOGPY, "                    thermo_footers.append(i-1)\n\n                # Check for strings listed prior to  performance data",
  "                    thermo_footers.append(i)\n\n                # Check for strings listed prior to  performance data",
  'the "Loop time" line becomes a thermo row')
M('M19.2', 'C19', LOGPY, "                if len(line.split()) == 0:\n                    continue",
  "                if line == '\\n':\n                    continue", 'whitespace-only lines are counted although pandas skips them')
M('M19.3', 'C19', RUNPY, "    for i in range(1, lognum+1):", "    for i in range(lognum, 0, -1):", 'old logs re-read newest first (needs >= 2 restarts)')
M('M19.4', 'C19', RUNPY, "            lognum = maxlogid + 1", "            lognum = max(maxlogid, 1)",
  'rotation overwrites the newest rotated log (needs >= 2 restarts)')
M('M19.5', 'C19', LOGPY, "            thermo_headers = [header for header in thermo_headers if header < i]\n", "",
  'revert 77236b9: log ending right after the memory line')
M('M19.6', 'C19', LOGPY, "                                encoding_errors='replace')\n\n        # Reset file pointer\n        log_info.seek(0)\n\n        # Append",
  "                                encoding_errors='replace')\n\n        # Reset file pointer\n\n        # Append",
  'stream not rewound after a thermo table (needs >= 2 blocks)')
M('M19.7', 'C19', LOGPY, "if line[:8] == 'LAMMPS (' and self.lammps_version is None:", "if line[:8] == 'LAMMPS (' and line.strip().endswith(')'):",
  'NEGATIVE CONTROL: version taken from the LAST complete banner: allowed by the statement, which does not say which', expect='clean')
M('M19.28', 'C19', LOGPY, "if line[:8] == 'LAMMPS (' and self.lammps_version is None:", "if line[:8] == 'LAMMPS (':",
  'every banner line reaches the version parser: since ec4d72c a banner cut by a kill then wipes the version the object had')
M('M19.8', 'C19', LOGPY, "merged_df[merged_df.Step < thermo.Step.min()]", "merged_df[merged_df.Step <= thermo.Step.min()]",
  'flatten last keeps the boundary step twice (needs overlapping runs)')
M('M19.9', 'C19', LOGPY, "thermo[thermo.Step > merged_df.Step.max()]", "thermo[thermo.Step >= merged_df.Step.max()]",
  'flatten first keeps the boundary step twice (needs overlapping runs)')
M('M19.10', 'C19', LOGPY, "        if append is False:\n            self.__simulations = []", "        if append is None:\n            self.__simulations = []",
  'append=False no longer replaces')
M('M19.11', 'C19', LOGPY, "                                skip_blank_lines=True,\n                                float_precision='round_trip',",
  "                                skip_blank_lines=True,", 'revert d574e9e: default float converter (needs small values in long formats)')
M('M19.12', 'C19', LOGPY, "            if not last_line_complete:\n                i -= 1", "            if False:\n                i -= 1",
  'revert ae0f354: in-flight last line read as a row')
M('M19.13', 'C19', LOGPY, "                    if len(performance_footers) < len(performance_headers):", "                    if True:",
  'revert 67dd324: Nlocal without a breakdown recorded as a breakdown end')
M('M19.14', 'C19', LOGPY, "                if merged_df[key].dtype != object:\n                    continue", "                if False:\n                    continue",
  'revert 0c69b3e: flatten(last) casts float columns to the int dtype of the last run')
M('M19.15', 'C19', LOGPY, "        if len(nonempty) > 0:\n            simulations = nonempty", "        if False:\n            simulations = nonempty",
  'revert b2e0ab4: a run without rows wipes the merge')
M('M19.16', 'C19', LOGPY, "'Sep': 9, 'Oct': 10,'Nov': 11,'Dec': 12}", "'Sep': 9, 'Oct': 10,'Nov': 10,'Dec': 12}", 'November parsed as October')
M('M19.17', 'C19', LOGPY, "            # Reset file pointer\n            log_info.seek(0)\n\n            # Get number of Simulations already read",
  "            # Get number of Simulations already read", 'no rewind after the scanning pass')
M('M19.18', 'C19', LOGPY, "            elif style == 'all':\n                merged_df = pd.concat([merged_df, thermo], ignore_index=True)",
  "            elif style == 'all':\n                merged_df = pd.concat([merged_df, thermo], ignore_index=True).drop_duplicates('Step')",
  'flatten all drops repeated steps')
M('M19.19', 'C19', LOGPY, "        simulations = self.simulations[firstindex:lastindex]", "        simulations = self.simulations[firstindex:]",
  'flatten ignores lastindex')
M('M19.20', 'C19', LOGPY, "        thermo_start_trigger = ['Memory usage per processor =',\n", "        thermo_start_trigger = [\n",
  'old-style memory banner no longer recognised')
M('M19.21', 'C19', LOGPY, "                                nrows=footer-header,\n                                sep=r'\\s+',",
  "                                nrows=footer-header-1,\n                                sep=r'\\s+',", 'last row of every table dropped')
M('M19.22', 'C19', RUNPY, "            for oldlog in Path().glob(f'{logname}-*{logext}'):", "            for oldlog in Path().glob(f'{logname}-?{logext}'):",
  'rotation only sees single-digit log numbers (needs >= 10 restarts)')
M('M19.23', 'C19', LOGPY, "            self.__lammps_version = line.strip()[8:-1]", "            self.__lammps_version = line.strip()[8:].split(' - ')[0].rstrip(')')",
  'version loses its "- Update N" part')
M('M19.24', 'C19', LOGPY, "        for sim in simulations[1:]:\n            thermo = sim.thermo\n", "        for sim in simulations[1:3]:\n            thermo = sim.thermo\n",
  'flatten merges at most three runs')
M('M19.25', 'C19', RUNPY, "    if screen:\n        log.read(output.stdout)", "    if screen:\n        log.read(output.stdout, append=lognum == 0)",
  'screen output of a restart replaces the history instead of extending it')

M('M19.26', 'C19', LOGPY, "line = line.decode('UTF-8', errors='replace')", "line = line.decode('UTF-8')",
  'revert 6c40380 (line scan): a log cut inside a multi-byte character cannot be read')
M('M19.27', 'C19', LOGPY, "                                float_precision='round_trip',\n                                encoding_errors='replace')",
  "                                float_precision='round_trip')",
  'revert 6c40380 (thermo table): pandas decodes strictly and fails on the torn character at the end of the file')

def _flex(old):
    """Regex for `old` that tolerates trailing blanks and whitespace-only lines."""
    import re
    parts = []
    lines = old.split('\n')
    for k, line in enumerate(lines):
        if k == len(lines) - 1 and line == '':
            parts.append('')        # `old` ends with a newline: do not eat the next line's indentation
        else:
            parts.append(re.escape(line.rstrip()) + r'[ \t]*')
    return re.compile('\n'.join(parts))


def apply_edit(root, m):
    p = os.path.join(root, m['file'])
    with open(p) as f:
        s = f.read()
    rx = _flex(m['old'])
    found = list(rx.finditer(s))
    nth = m.get('nth')
    if nth is None:
        if len(found) != 1:
            raise RuntimeError('%s: pattern occurs %d times in %s' % (m['id'], len(found), m['file']))
        hit = found[0]
    else:
        if len(found) < nth:
            raise RuntimeError('%s: pattern occurs %d times in %s, wanted #%d' % (m['id'], len(found), m['file'], nth))
        hit = found[nth - 1]
    with open(p, 'w') as f:
        f.write(s[:hit.start()] + m['new'] + s[hit.end():])


def make_copy():
    d = tempfile.mkdtemp(prefix='atomman-verif-mutant.')
    shutil.copytree(os.path.join(REPO, 'atomman'), os.path.join(d, 'atomman'),
                    ignore=shutil.ignore_patterns('__pycache__', '*.pyc'), symlinks=True)
    for f in ('setup.py', 'README.rst'):
        shutil.copy(os.path.join(REPO, f), os.path.join(d, f))
    return d


def run_check(prop, repo, tier='quick', extra=(), workers=None, replays=None):
    env = dict(os.environ)
    env.pop('VERIF_INNER', None)
    if workers:
        env['VERIF_WORKERS'] = str(workers)
    if replays:
        env['VERIF_REPLAYS'] = replays
    cmd = [os.path.join(VERIF, 'bin/check'), prop, '--repo', repo, '--tier', tier, '--no-evidence'] + list(extra)
    t0 = time.time()
    r = subprocess.run(cmd, env=env, stdout=subprocess.PIPE, stderr=subprocess.STDOUT, text=True, cwd=VERIF)
    return r.returncode, r.stdout, time.time() - t0


def run_tests(copy):
    """Baseline suite inside the copy (its own compiled extensions come along
    with the copytree of /repo/atomman when /repo has them built)."""
    shutil.copytree(os.path.join(REPO, 'tests'), os.path.join(copy, 'tests'),
                    ignore=shutil.ignore_patterns('__pycache__'))
    env = dict(os.environ, PYTHONPATH=copy, PYTHONWARNINGS='ignore')
    r = subprocess.run([PY, '-m', 'pytest', '-q', '-rf', '-p', 'no:cacheprovider', '--timeout=900',
                        '--continue-on-collection-errors', 'tests'], cwd=copy, env=env,
                       stdout=subprocess.PIPE, stderr=subprocess.STDOUT, text=True)
    with open('/root/.vp/BASELINE.json') as f:
        stable = set(json.load(f)['stable_pass'])
    broken = []
    for ln in r.stdout.splitlines():
        if ln.startswith(('FAILED ', 'ERROR ')):
            nodeid = ln.split()[1]
            path, _, rest = nodeid.partition('::')
            tid = path[:-3].replace('/', '.') + ('.' + rest.split('::')[0] + '::' + rest.split('::')[1] if rest.count('::') else '::' + rest)
            if tid in stable:
                broken.append(tid)
    tail = r.stdout.strip().splitlines()[-1] if r.stdout.strip() else ''
    return ('BASELINE-BROKEN %s' % broken if broken else 'baseline green') + ' (' + tail + ')'


def seeded_mutants():
    out = []
    for meta in sorted(glob.glob(os.path.join(VERIF, 'seeded/*/meta.json'))):
        with open(meta) as f:
            m = json.load(f)
        out.append({'id': 'S:' + os.path.basename(os.path.dirname(meta)), 'prop': m['property'],
                    'patch': os.path.join(os.path.dirname(meta), 'patch.diff'), 'note': m.get('needs', ''),
                    'expect': m.get('verif_expect', 'detected')})
    return out


def main():
    ap = argparse.ArgumentParser()
    ap.add_argument('--only')
    ap.add_argument('--prop')
    ap.add_argument('--with-tests', action='store_true')
    ap.add_argument('--seeded', action='store_true', help='also run the sub-agent changes kept under /verif/seeded')
    ap.add_argument('--tier', default='quick')
    ap.add_argument('--show', action='store_true')
    ap.add_argument('--no-replay-check', action='store_true')
    ap.add_argument('--jobs', type=int, default=3, help='mutants checked concurrently (each with 16/jobs workers)')
    args = ap.parse_args()
    todo = list(MUTANTS)
    if args.seeded:
        todo += seeded_mutants()
    if args.only:
        want = set(args.only.split(','))
        todo = [m for m in todo if m['id'] in want]
    if args.prop:
        todo = [m for m in todo if m['prop'] == args.prop]
    missed = 0
    replays_checked, replays_bad = [0], [0]
    import threading
    from concurrent.futures import ThreadPoolExecutor
    lock = threading.Lock()
    jobs = max(1, args.jobs)
    workers = max(2, 16 // jobs)

    def one(m):
        lines = []
        bad_here = 0
        d = make_copy()
        rdir = tempfile.mkdtemp(prefix='atomman-verif-replays.')
        try:
            if 'patch' in m:
                r = subprocess.run(['patch', '-p1', '-s', '-i', m['patch']], cwd=d, stdout=subprocess.PIPE,
                                   stderr=subprocess.STDOUT, text=True)
                if r.returncode != 0:
                    return ['%-14s %s PATCH-FAILED %s' % (m['id'], m['prop'], r.stdout.strip()[:200])], 1, 0, 0
            else:
                apply_edit(d, m)
            rc, out, wall = run_check(m['prop'], d, args.tier, workers=workers, replays=rdir)
            clauses = sorted({ln.split('clause=')[1].split()[0] for ln in out.splitlines() if 'clause=' in ln})
            verdict = {1: 'DETECTED', 0: 'MISSED', 2: 'HARNESS-ERROR'}.get(rc, 'rc=%d' % rc)
            nrep = nbad = 0
            if rc == 1 and not args.no_replay_check:
                # every reported violation must replay, minimised, in a fresh process: same clause, same digest
                paths = [ln.split('replay=')[1].strip() for ln in out.splitlines() if ln.startswith('VIOLATION ') and 'replay=' in ln]
                for rp in paths[:3]:
                    env = dict(os.environ)
                    env.pop('VERIF_INNER', None)
                    env['VERIF_WORKERS'] = str(workers)
                    r2 = subprocess.run([os.path.join(VERIF, 'bin/check'), m['prop'], '--repo', d, '--replay', rp], env=env,
                                        stdout=subprocess.PIPE, stderr=subprocess.STDOUT, text=True, cwd=VERIF)
                    if r2.returncode != 1 or 'same_as_recorded=True digest_match=True' not in r2.stdout:
                        nbad += 1
                nrep = len(paths[:3])
                verdict += '' if not nbad else '+REPLAY-MISMATCH(%d)' % nbad
            tests = ''
            if args.with_tests:
                tests = ' | tests: ' + run_tests(d)
            lines.append('%-14s %s %-13s %5.1fs %s  # %s%s' % (m['id'], m['prop'], verdict, wall, ','.join(clauses), m['note'], tests))
            want_rc = 0 if m.get('expect') == 'clean' else 1
            if m.get('expect') == 'either' and rc in (0, 1):
                pass        # a change whose demonstrated effect is accepted by decision but which has a rarer side effect that is not
            elif rc != want_rc:
                bad_here = 1
                lines.append('   ^^^ UNEXPECTED: wanted rc=%d' % want_rc)
                if args.show or rc == 2 or want_rc == 0:
                    lines.append(out[-1500:])
            elif args.show:
                lines.append(out[-1200:])
            return lines, bad_here, nrep, nbad
        finally:
            shutil.rmtree(d, ignore_errors=True)
            shutil.rmtree(rdir, ignore_errors=True)

    with ThreadPoolExecutor(max_workers=jobs) as ex:
        for lines, bad_here, nrep, nbad in ex.map(one, todo):
            for ln in lines:
                print(ln)
            missed += bad_here
            replays_checked[0] += nrep
            replays_bad[0] += nbad
            sys.stdout.flush()
    print('%d mutants, %d with an unexpected verdict; %d replay files re-executed in fresh processes, %d mismatches'
          % (len(todo), missed, replays_checked[0], replays_bad[0]))
    if replays_bad[0]:
        missed += 1
    return 1 if missed else 0


if __name__ == '__main__':
    sys.exit(main())
