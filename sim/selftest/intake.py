#!/venv/bin/python
"""Takes in one round of sub-agent changes: confirms each (confirm_seeded), keeps the confirmed ones under
/verif/seeded/<P>-<letter><half><k>/ and runs the owning quick checks against them.

  /venv/bin/python -m sim.selftest.intake <round-number> <letter>
  e.g. round 6, letter f:  /tmp/out6-C19a/2  ->  seeded/C19-fa2   (worktree /tmp/wt-C19 for half a, /tmp/wt-C19b for half b)
"""

import glob
import os
import re
import subprocess
import sys

PY = '/venv/bin/python'
VERIF = os.path.dirname(os.path.dirname(os.path.dirname(os.path.abspath(__file__))))


def main():
    rnd, letter = sys.argv[1], sys.argv[2]
    names = []
    for d in sorted(glob.glob('/tmp/out%s-C*' % rnd)):
        m = re.match(r'/tmp/out%s-(C\d+)([ab]?)$' % rnd, d)
        if not m:
            continue
        prop, half = m.group(1), m.group(2)
        wt = '/tmp/wt-%s%s' % (prop, 'b' if half == 'b' else '')
        for k in sorted(os.listdir(d)):
            out = os.path.join(d, k)
            if not (os.path.isdir(out) and os.path.exists(os.path.join(out, 'patch.diff'))):
                continue
            name = '%s-%s%s%s' % (prop, letter, half, k)
            if os.path.isdir(os.path.join(VERIF, 'seeded', name)):
                names.append(name)
                continue
            r = subprocess.run([PY, '-m', 'sim.selftest.confirm_seeded', wt, out, name], cwd=VERIF, stdout=subprocess.PIPE,
                               stderr=subprocess.STDOUT, text=True)
            last = r.stdout.strip().splitlines()[-1] if r.stdout.strip() else ''
            print(last)
            if r.returncode == 0:
                names.append(name)
            else:
                print(r.stdout[-1500:])
    if not names:
        return 0
    r = subprocess.run([PY, '-m', 'sim.selftest.mutants', '--seeded', '--only', ','.join('S:' + n for n in names)], cwd=VERIF,
                       stdout=subprocess.PIPE, stderr=subprocess.STDOUT, text=True)
    for ln in r.stdout.splitlines():
        if ln.startswith('S:') or 'UNEXPECTED' in ln or 'mutants,' in ln:
            print(ln[:190])
    return 0


if __name__ == '__main__':
    sys.exit(main())
