"""./bin/check <PROPERTY> [--tier quick|thorough] [--replay FILE] ...

Outer stage (no atomman imported): copy /repo's working tree to a scratch
directory, build its extensions there, start the inner stage with PYTHONPATH
pointing at the copy and PYTHONHASHSEED=0, remove the copy afterwards.

Inner stage: seeded search over histories with a fork pool, known-findings
triage, minimisation, replay files, evidence.

Exit status: 0 = property held on everything explored (known findings listed),
1 = at least one VIOLATION line, 2 = harness error.
"""

import argparse
import json
import os
import shutil
import subprocess
import sys
import time

VERIF = os.path.dirname(os.path.dirname(os.path.abspath(__file__)))
PY = '/venv/bin/python'

REGISTRY = {
    # prop: (module, class, {tier: (runs, wall_budget_s)})
    'C01': ('sim.engines.session_box', 'BoxEngine', {'quick': (4000, 240), 'thorough': (300000, 1500)}),
    'C06': ('sim.engines.session_atoms', 'AtomsEngine', {'quick': (4000, 240), 'thorough': (300000, 1500)}),
    'C15': ('sim.engines.session_point', 'PointEngine', {'quick': (3000, 240), 'thorough': (150000, 1500)}),
    'C09': ('sim.engines.epochs_c09', 'UnitsEngine', {'quick': (3000, 240), 'thorough': (200000, 1500)}),
    'C10': ('sim.engines.epochs_c10', 'ModelEngine', {'quick': (3000, 240), 'thorough': (300000, 1500)}),
    'C08': ('sim.engines.channel_rt', 'ChannelEngine', {'quick': (2000, 240), 'thorough': (120000, 1500)}),
    'C19': ('sim.engines.cosim', 'CosimEngine', {'quick': (2500, 240), 'thorough': (120000, 1500)}),
}


def parse_args(argv):
    ap = argparse.ArgumentParser(prog='check')
    ap.add_argument('prop', nargs='?')
    ap.add_argument('--tier', default=os.environ.get('VERIF_TIER') or 'quick', choices=['quick', 'thorough'])
    ap.add_argument('--replay')
    ap.add_argument('--runs', type=int)
    ap.add_argument('--budget', type=float, help='wall budget in seconds')
    ap.add_argument('--workers', type=int, default=int(os.environ.get('VERIF_WORKERS') or 0))
    ap.add_argument('--start', type=int, default=0, help='first run index')
    ap.add_argument('--no-evidence', action='store_true')
    ap.add_argument('--no-minimise', action='store_true')
    ap.add_argument('--digests', help='write "index digest" lines to this file (determinism self-test)')
    ap.add_argument('--events', action='store_true', help='with --replay: print the event log')
    ap.add_argument('--setup', action='store_true')
    ap.add_argument('--selftest-determinism', action='store_true')
    ap.add_argument('--repo', default=os.environ.get('VERIF_REPO', '/repo'))
    return ap.parse_args(argv)


# --------------------------------------------------------------------------
# outer stage

def outer(argv):
    args = parse_args(argv)
    sys.path.insert(0, VERIF)
    from sim import tree
    os.environ['VERIF_REPO'] = args.repo
    tree.REPO = args.repo
    t0 = time.time()
    try:
        scratch = tree.build(args.repo)
    except Exception as e:      # noqa: BLE001
        print('HARNESS-ERROR: cannot build scratch tree: %s' % e)
        return 2
    build_s = time.time() - t0
    try:
        env = dict(os.environ)
        env['PYTHONPATH'] = scratch + os.pathsep + VERIF
        env.setdefault('PYTHONHASHSEED', '0')
        env['VERIF_INNER'] = '1'
        env['VERIF_TREE'] = scratch
        env['VERIF_TREE_SHA'] = tree.tree_sha(args.repo)
        env['VERIF_BUILD_S'] = '%.2f' % build_s
        env['PYTHONDONTWRITEBYTECODE'] = '1'
        env.setdefault('PYTHONWARNINGS', 'ignore::SyntaxWarning')
        env['OMP_NUM_THREADS'] = '1'
        env['OPENBLAS_NUM_THREADS'] = '1'
        env['MKL_NUM_THREADS'] = '1'
        r = subprocess.run([PY, '-B', '-m', 'sim.cli'] + list(argv), env=env, cwd=VERIF)
        return r.returncode if r.returncode in (0, 1, 2) else 2
    finally:
        shutil.rmtree(scratch, ignore_errors=True)


# --------------------------------------------------------------------------
# inner stage

def load_engine(prop):
    import importlib
    mod, cls, _ = REGISTRY[prop]
    return getattr(importlib.import_module(mod), cls)()


def _check_tree():
    # numericalunits draws random working units when it is first imported (random.seed() from the OS).  On the pinned
    # tree atomman's own import replaces them by a named choice built from a clean SI table, so the draw is invisible; a
    # change to the library that makes a later table depend on the earlier one would let that draw leak into every run
    # and break replay.  The simulator owns this seam too: the import-time draw is seeded.
    import random as _random
    _orig_seed = _random.seed

    def _seed(a=None, version=2):
        return _orig_seed(20260928 if a is None else a, version)
    _random.seed = _seed
    try:
        import atomman
    finally:
        _random.seed = _orig_seed
    tree_dir = os.environ.get('VERIF_TREE')
    here = os.path.dirname(os.path.dirname(os.path.abspath(atomman.__file__)))
    if tree_dir and os.path.realpath(here) != os.path.realpath(tree_dir):
        raise SystemExit('HARNESS-ERROR: atomman imported from %s, expected scratch tree %s' % (here, tree_dir))


def inner(argv):
    args = parse_args(argv)
    from sim import runner
    _check_tree()
    if args.setup:
        print('setup ok: scratch tree built in %ss, atomman importable' % os.environ.get('VERIF_BUILD_S'))
        return 0
    if args.selftest_determinism:
        from sim.selftest import determinism
        return determinism.main(args)
    if not args.prop or args.prop not in REGISTRY:
        print('HARNESS-ERROR: unknown property %r (have %s)' % (args.prop, ' '.join(sorted(REGISTRY))))
        return 2
    engine = load_engine(args.prop)
    if args.replay:
        return runner.replay(engine, args)
    return runner.search(engine, args, REGISTRY[args.prop][2])


def main():
    argv = sys.argv[1:]
    if os.environ.get('VERIF_INNER') == '1':
        try:
            rc = inner(argv)
        except SystemExit as e:
            if isinstance(e.code, str):
                print(e.code)
                rc = 2
            else:
                rc = e.code or 0
        except BaseException:       # noqa: BLE001
            import traceback
            traceback.print_exc()
            print('HARNESS-ERROR: uncaught exception in inner stage')
            rc = 2
        sys.stdout.flush()
        sys.exit(rc)
    sys.exit(outer(argv))


if __name__ == '__main__':
    main()
