"""Independent cell geometry used by reference models and generators.

Nothing here imports atomman.  Formulas are written from the textbook
definitions, not copied from Box.py.
"""

import math

import numpy as np


def tri_from_abc(a, b, c, alpha, beta, gamma):
    """Lower-triangular (LAMMPS-oriented) cell from lengths and angles in degrees.
    Row vectors: a along x, b in the xy plane, c with positive z."""
    ca, cb, cg = (math.cos(math.radians(x)) for x in (alpha, beta, gamma))
    sg = math.sin(math.radians(gamma))
    ax = a
    bx = b * cg
    by = b * sg
    cx = c * cb
    cy = c * (ca - cb * cg) / sg
    cz2 = c * c - cx * cx - cy * cy
    if not cz2 > 0:
        raise ValueError('angle triple not realisable')
    return np.array([[ax, 0.0, 0.0], [bx, by, 0.0], [cx, cy, math.sqrt(cz2)]])


def realisable(alpha, beta, gamma, margin=0.05):
    """Angle triple spans a non-degenerate cell, with a margin on the Gram determinant."""
    ca, cb, cg = (math.cos(math.radians(x)) for x in (alpha, beta, gamma))
    g = 1 + 2 * ca * cb * cg - ca * ca - cb * cb - cg * cg
    return g > margin


def lengths_angles(V):
    V = np.asarray(V, dtype=float)
    n = [math.sqrt(float(np.dot(V[i], V[i]))) for i in range(3)]

    def ang(u, v, nu, nv):
        x = float(np.dot(u, v)) / (nu * nv)
        return math.degrees(math.acos(max(-1.0, min(1.0, x))))
    return (n[0], n[1], n[2],
            ang(V[1], V[2], n[1], n[2]), ang(V[0], V[2], n[0], n[2]), ang(V[0], V[1], n[0], n[1]))


def volume(V):
    return abs(float(np.linalg.det(np.asarray(V, dtype=float))))


def rel_to_cart(V, o, rel):
    return np.asarray(rel, dtype=float) @ np.asarray(V, dtype=float) + np.asarray(o, dtype=float)


def cart_to_rel(V, o, cart):
    cart = np.asarray(cart, dtype=float)
    flat = (cart - np.asarray(o, dtype=float)).reshape(-1, 3)
    sol = np.linalg.solve(np.asarray(V, dtype=float).T, flat.T).T
    return sol.reshape(cart.shape)


def random_rotation(rng):
    """Proper rotation from a unit quaternion drawn from the run's PRNG."""
    while True:
        q = [rng.gauss(0, 1) for _ in range(4)]
        n = math.sqrt(sum(x * x for x in q))
        if n > 1e-3:
            break
    w, x, y, z = (v / n for v in q)
    return np.array([
        [1 - 2 * (y * y + z * z), 2 * (x * y - z * w), 2 * (x * z + y * w)],
        [2 * (x * y + z * w), 1 - 2 * (x * x + z * z), 2 * (y * z - x * w)],
        [2 * (x * z - y * w), 2 * (y * z + x * w), 1 - 2 * (x * x + y * y)]])


def is_tri(V):
    V = np.asarray(V)
    return V[0, 1] == 0.0 and V[0, 2] == 0.0 and V[1, 2] == 0.0 and V[0, 0] > 0 and V[1, 1] > 0 and V[2, 2] > 0


ROUND_ANGLES = [60.0, 90.0, 120.0, 45.0, 75.0, 105.0, 135.0]


def draw_abc(rng, scale=1.0, special=True):
    """(a,b,c,alpha,beta,gamma): positive lengths, realisable angles in [30,150],
    aspect ratio at most 20.  Mixes round and generic values."""
    base = scale * 10 ** rng.uniform(0, 1)
    if special and rng.random() < 0.25:
        a = b = c = base
    else:
        a, b, c = (base * 10 ** rng.uniform(-0.6, 0.6) for _ in range(3))
    for _ in range(200):
        if special and rng.random() < 0.4:
            al, be, ga = (rng.choice(ROUND_ANGLES) for _ in range(3))
        else:
            al, be, ga = (rng.uniform(30, 150) for _ in range(3))
        if special and rng.random() < 0.3:
            al = be = 90.0
        if realisable(al, be, ga):
            return a, b, c, al, be, ga
    return a, b, c, 90.0, 90.0, 90.0


def draw_tri_cell(rng, scale=1.0, big_tilt=False):
    """Lower-triangular cell.  Either from lengths and angles, or from LAMMPS
    lengths and tilts (tilts may exceed half a box length when big_tilt)."""
    if rng.random() < 0.5:
        return tri_from_abc(*draw_abc(rng, scale))
    base = scale * 10 ** rng.uniform(0, 1)
    lx, ly, lz = (base * 10 ** rng.uniform(-0.5, 0.5) for _ in range(3))
    lim = 1.2 if big_tilt else 0.5
    xy = rng.choice([0.0, rng.uniform(-lim, lim) * lx])
    xz = rng.choice([0.0, rng.uniform(-lim, lim) * lx])
    yz = rng.choice([0.0, rng.uniform(-lim, lim) * ly])
    return np.array([[lx, 0.0, 0.0], [xy, ly, 0.0], [xz, yz, lz]])


def draw_origin(rng, size, zero_ok=True):
    if zero_ok and rng.random() < 0.3:
        return np.zeros(3)
    return np.array([rng.uniform(-3, 3) * size for _ in range(3)])


def snap_small(V):
    """Box zeroes vector components below 1e-9 of the largest one (documented clean-up in the vects setter).  Cells are
    generated outside that band: components below 1e-7 of the largest become exact zeros."""
    V = np.array(V, dtype=float)
    V[np.abs(V) < 1e-7 * float(np.abs(V).max())] = 0.0
    return V


def with_layout(a, layout):
    """The same values in another memory layout: what a caller gets from a transpose, a column-wise assembly or a
    slice of a larger array.  Values, dtype and shape are unchanged."""
    a = np.asarray(a)
    if a.dtype.kind not in 'iufb':
        return a
    if layout == 'F' and a.ndim >= 2:
        return np.asfortranarray(a)
    if layout == 'strided' and a.ndim >= 1 and a.size:
        big = np.zeros(a.shape[:-1] + (2 * a.shape[-1],), dtype=a.dtype)
        big[..., ::2] = a
        return big[..., ::2]
    if layout == 'T' and a.ndim >= 2:
        return np.ascontiguousarray(a.T).T
    return a


def cube_rotations():
    """The 23 proper rotations of the cube other than the identity (signed permutation matrices with det +1):
    cells rotated by one of them keep exact zeros, e.g. a LAMMPS-oriented cell turned by 180 degrees about x is still
    lower triangular but has two negative diagonal terms."""
    import itertools
    out = []
    for perm in itertools.permutations(range(3)):
        for signs in itertools.product([1.0, -1.0], repeat=3):
            R = np.zeros((3, 3))
            for i, (p, sg) in enumerate(zip(perm, signs)):
                R[i, p] = sg
            if abs(np.linalg.det(R) - 1.0) < 1e-12 and not np.array_equal(R, np.eye(3)):
                out.append(R)
    return out


CUBE_ROTATIONS = cube_rotations()
