"""Seeded search over histories, triage against the known-findings file,
minimisation, replay files and evidence."""

import collections
import concurrent.futures as cf
import faulthandler
import json
import multiprocessing
import os
import sys
import time
import traceback

from . import kernel

VERIF = os.path.dirname(os.path.dirname(os.path.abspath(__file__)))
KNOWN = os.path.join(VERIF, 'known_findings.jsonl')
REPLAYS = os.environ.get('VERIF_REPLAYS') or os.path.join(VERIF, 'replays')     # the self-test tools give each mutant its own
EVIDENCE = os.path.join(VERIF, 'evidence')

RUN_WALL = 30           # seconds per run (alarm inside the worker)
CHUNK = int(os.environ.get('VERIF_CHUNK') or 25)     # runs per forked child; VERIF_CHUNK=1 isolates every run


def verif_seed():
    try:
        return int(os.environ.get('VERIF_SEED') or 0)
    except ValueError:
        return 0


def load_known(prop):
    out = []
    if os.path.isfile(KNOWN):
        with open(KNOWN) as f:
            for line in f:
                line = line.strip()
                if not line or line.startswith('#'):
                    continue
                e = json.loads(line)
                if e.get('property') == prop and e.get('status') == 'known':
                    out.append(e)
    return out


def match_known(known, v):
    for e in known:
        if (e['clause'], e['site'], e['klass']) == (v['clause'], v['site'], v['klass']):
            return e
    return None


# --------------------------------------------------------------------------
# worker side

_ENGINE = None


def _work(task):
    """One chunk of runs, executed in a fresh fork of this (never-run) worker: a run can only see state left
    by the earlier runs of its own chunk, and the replay file records those as its prelude."""
    try:
        return kernel.in_fork(lambda: _work_chunk(task), timeout=RUN_WALL * CHUNK + 30)
    except kernel.HarnessError as e:
        prop, vseed, indices, nsample = task
        return [{'index': i, 'run_seed': kernel.derive_seed(prop, vseed, i), 'harness_error': str(e)} for i in indices]


def _work_chunk(task):
    prop, vseed, indices, nsample = task
    out = []
    for k, i in enumerate(indices):
        rs = kernel.derive_seed(prop, vseed, i)
        try:
            r = kernel.execute(_ENGINE, rs, wall=RUN_WALL)
        except BaseException as e:      # noqa: BLE001
            out.append({'index': i, 'run_seed': rs, 'harness_error':
                        ''.join(traceback.format_exception(type(e), e, e.__traceback__))[-3000:]})
            continue
        r['index'] = i
        r['prelude'] = list(indices[:k])
        r['sigs'] = sorted(r['sigs'])
        if r['violation'] is None and i >= nsample:
            r['ops'] = None
            r['cfg'] = None
        out.append(r)
    return out


def _abbrev(x, depth=0):
    """Shortens long literal arrays in a sample history for the evidence file."""
    if isinstance(x, list):
        if len(x) > 6 and all(not isinstance(v, (dict,)) for v in x):
            return [_abbrev(v, depth + 1) for v in x[:4]] + ['… %d more' % (len(x) - 4)]
        return [_abbrev(v, depth + 1) for v in x]
    if isinstance(x, dict):
        return {k: _abbrev(v, depth + 1) for k, v in x.items()}
    if isinstance(x, str) and len(x) > 300:
        return x[:300] + '… (%d chars)' % len(x)
    return x


# --------------------------------------------------------------------------
# search

def search(engine, args, tiers):
    global _ENGINE
    _ENGINE = engine
    prop = engine.prop
    vseed = verif_seed()
    runs, budget = tiers[args.tier]
    if args.runs:
        runs = args.runs
    if args.budget:
        budget = args.budget
    workers = args.workers or min(16, os.cpu_count() or 1)
    known = load_known(prop)
    t0 = time.time()
    faulthandler.enable()

    agg = {
        'runs': 0, 'nontrivial_runs': 0, 'steps': 0, 'sim_steps': 0,
        'ops': collections.Counter(), 'faults': collections.Counter(),
        'probes': collections.Counter(), 'sigs': set(), 'fault_free_runs': 0,
    }
    samples = []
    violations = []         # result dicts with violation
    harness = []
    digests = {}
    stopped_early = False

    indices = list(range(args.start, args.start + runs))
    chunks = [indices[i:i + CHUNK] for i in range(0, len(indices), CHUNK)]
    ctxmp = multiprocessing.get_context('fork')
    results = {}
    with cf.ProcessPoolExecutor(max_workers=workers, mp_context=ctxmp) as pool:
        pending = {}
        it = iter(chunks)
        exhausted = False

        def submit_more():
            nonlocal exhausted, stopped_early
            while not exhausted and len(pending) < workers * 2:
                try:
                    ch = next(it)
                except StopIteration:
                    exhausted = True
                    return
                if time.time() - t0 > budget:
                    exhausted = True
                    stopped_early = True
                    return
                pending[pool.submit(_work, (prop, vseed, ch, 3))] = ch

        submit_more()
        while pending:
            done, _ = cf.wait(list(pending), timeout=RUN_WALL * CHUNK + 60, return_when=cf.FIRST_COMPLETED)
            if not done:
                harness.append('worker pool made no progress for %ds' % (RUN_WALL * CHUNK + 60))
                for f in pending:
                    f.cancel()
                break
            for f in done:
                ch = pending.pop(f)
                try:
                    for r in f.result():
                        results[r['index']] = r
                except BaseException as e:      # noqa: BLE001
                    harness.append('worker died on runs %s..%s: %r' % (ch[0], ch[-1], e))
            submit_more()
        if harness:
            pool.shutdown(wait=False, cancel_futures=True)

    for i in sorted(results):
        r = results[i]
        if 'harness_error' in r:
            harness.append('run %d (seed %d): %s' % (i, r['run_seed'], r['harness_error']))
            continue
        agg['runs'] += 1
        agg['steps'] += r['nsteps']
        agg['sim_steps'] += r['sim_steps']
        agg['ops'].update(r['ops_by_kind'])
        agg['faults'].update(r['faults'])
        agg['probes'].update(r['probes'])
        if not r['faults']:
            agg['fault_free_runs'] += 1
        if r['nontrivial']:
            agg['nontrivial_runs'] += 1
            agg['sigs'].update(r['sigs'])
        digests[i] = r['digest']
        if r['ops'] is not None and r['violation'] is None and len(samples) < 3:
            samples.append({'run_index': i, 'run_seed': r['run_seed'], 'config': _abbrev(r['cfg']),
                            'ops': _abbrev(r['ops'][:12]), 'ops_total': len(r['ops'])})
        if r['violation'] is not None:
            violations.append(r)

    if args.digests:
        with open(args.digests, 'w') as f:
            for i in sorted(digests):
                f.write('%d %s\n' % (i, digests[i]))

    # triage ---------------------------------------------------------------
    by_sig = collections.OrderedDict()
    for r in violations:
        v = r['violation']
        by_sig.setdefault((v['clause'], v['site'], v['klass']), []).append(r)

    known_hit = collections.OrderedDict()
    new = collections.OrderedDict()
    for sig, rs in by_sig.items():
        e = match_known(known, rs[0]['violation'])
        if e is not None:
            known_hit[sig] = (e, rs)
        else:
            new[sig] = rs

    rc = 0
    lines = []
    for sig, (e, rs) in known_hit.items():
        lines.append('KNOWN-FINDING: property=%s clause=%s site=%s class=%s runs=%d — %s'
                     % (prop, sig[0], sig[1], sig[2], len(rs), e.get('what', '')))
    # a listed finding is announced even when this run's sample did not hit it
    for e in known:
        sig = (e['clause'], e['site'], e['klass'])
        if sig not in known_hit:
            lines.append('KNOWN-FINDING: property=%s clause=%s site=%s class=%s runs=0 (not hit by this sample) — %s'
                         % (prop, sig[0], sig[1], sig[2], e.get('what', '')))

    replay_paths = []
    for k, (sig, rs) in enumerate(new.items()):
        rc = 1
        r = min(rs, key=lambda q: len(q['ops']))
        path = write_replay(engine, r, vseed, minimise=(not args.no_minimise and k < 6))
        replay_paths.append(path)
        lines.append('VIOLATION property=%s replay=%s' % (prop, path))
        lines.append('  clause=%s site=%s class=%s runs=%d first_index=%d detail=%s'
                     % (sig[0], sig[1], sig[2], len(rs), rs[0]['index'],
                        json.dumps(r['violation']['detail'], sort_keys=True)[:600]))
    if harness:
        rc = 2 if rc == 0 else rc
        for h in harness[:5]:
            lines.append('HARNESS-ERROR: ' + h.strip().replace('\n', '\n    '))

    wall = time.time() - t0
    if not args.no_evidence and not harness and agg['runs'] > 0:
        write_evidence(engine, args, vseed, agg, samples, wall, len(new), known_hit, stopped_early,
                       sum(len(rs) for rs in new.values()), workers)
    print('%s %s tier=%s seed=%d runs=%d nontrivial=%d distinct=%d faults=%d wall=%.1fs (build %ss) rc=%d'
          % (prop, engine.name, args.tier, vseed, agg['runs'], agg['nontrivial_runs'], len(agg['sigs']),
             sum(agg['faults'].values()), wall, os.environ.get('VERIF_BUILD_S', '?'), rc))
    for line in lines:
        print(line)
    return rc


# --------------------------------------------------------------------------
# replay files

def write_replay(engine, r, vseed, minimise=True):
    os.makedirs(REPLAYS, exist_ok=True)
    v = r['violation']
    sig = (v['clause'], v['site'], v['klass'])
    ops, best, used = r['ops'], r, 0
    # does the violation need state left behind by earlier runs of its chunk?
    prelude_idx = []
    history_dependent = False
    try:
        alone = kernel.execute_isolated(engine, r['run_seed'], r['cfg'], r['ops'], wall=RUN_WALL)
        va = alone['violation']
        if not (va and (va['clause'], va['site'], va['klass']) == sig):
            history_dependent = True
            full = list(r.get('prelude') or [])
            seeds = lambda idx: [kernel.derive_seed(engine.prop, vseed, i) for i in idx]      # noqa: E731

            def reproduces(idx):
                try:
                    q = kernel.execute_isolated(engine, r['run_seed'], r['cfg'], r['ops'], prelude_seeds=seeds(idx), wall=RUN_WALL)
                except kernel.HarnessError:
                    return False
                v2 = q['violation']
                return bool(v2 and (v2['clause'], v2['site'], v2['klass']) == sig)
            if full and reproduces(full):
                # shortest suffix first, then drop single runs
                prelude_idx = full
                for n in range(1, len(full)):
                    if reproduces(full[-n:]):
                        prelude_idx = full[-n:]
                        break
                k = 0
                while k < len(prelude_idx) and len(prelude_idx) > 1:
                    cand = prelude_idx[:k] + prelude_idx[k + 1:]
                    if reproduces(cand):
                        prelude_idx = cand
                    else:
                        k += 1
            else:
                prelude_idx = full          # could not be reproduced in isolation: recorded as found
    except kernel.HarnessError:
        traceback.print_exc()
    prelude_seeds = [kernel.derive_seed(engine.prop, vseed, i) for i in prelude_idx]
    if minimise:
        try:
            mops, mbest, used = kernel.minimise(engine, r['run_seed'], r['cfg'], r['ops'], sig, prelude_seeds=prelude_seeds,
                                                budget=300 if not prelude_seeds else 80)
            if mbest is not None:
                ops, best = mops, mbest
        except Exception:       # noqa: BLE001
            traceback.print_exc()
    doc = {
        'format': 1, 'property': engine.prop, 'engine': engine.name, 'verif_seed': vseed,
        'run_index': r.get('index'), 'run_seed': r['run_seed'],
        'tree_sha': os.environ.get('VERIF_TREE_SHA'),
        'config': r['cfg'], 'ops': ops, 'ops_original': r['ops'],
        'violation': best['violation'], 'digest': best['digest'],
        'minimiser_executions': used,
        'history_dependent': history_dependent,
        'prelude_run_indices': prelude_idx, 'prelude_run_seeds': prelude_seeds,
        'prelude_note': ('the violation needs state that earlier runs of the same chunk left in the process (module-level state in '
                         'the library); replay executes these runs first, generated from their seeds') if prelude_idx else None,
    }
    path = os.path.join(REPLAYS, '%s-%d.json' % (engine.prop, r['run_seed']))
    with open(path, 'w') as f:
        json.dump(doc, f, indent=1, sort_keys=True)
    return path


def replay(engine, args):
    with open(args.replay) as f:
        doc = json.load(f)
    if doc.get('property') != engine.prop:
        print('HARNESS-ERROR: replay file is for %s' % doc.get('property'))
        return 2
    if doc.get('tree_sha') and doc['tree_sha'] != os.environ.get('VERIF_TREE_SHA'):
        print('note: tree has changed since this replay file was written')
    if doc.get('prelude_run_seeds'):
        print('prelude: %d earlier run(s) executed first for the process state they leave behind' % len(doc['prelude_run_seeds']))
        kernel.run_prelude(engine, doc['prelude_run_seeds'], wall=120)
    r = kernel.execute(engine, doc['run_seed'], doc['config'], doc['ops'], keep_events=args.events, wall=120)
    if args.events:
        for e in r['events']:
            print(json.dumps(e, sort_keys=True))
    v = r['violation']
    want = doc.get('violation')
    if v is None:
        print('replay: no violation (recorded: %s)' % (want and want['clause']))
        return 0
    same = want is not None and (v['clause'], v['site'], v['klass']) == (want['clause'], want['site'], want['klass'])
    print('VIOLATION property=%s replay=%s' % (engine.prop, os.path.abspath(args.replay)))
    print('  clause=%s site=%s class=%s same_as_recorded=%s digest_match=%s'
          % (v['clause'], v['site'], v['klass'], same, r['digest'] == doc.get('digest')))
    print('  detail=%s' % json.dumps(v['detail'], sort_keys=True)[:1500])
    return 1


# --------------------------------------------------------------------------
# evidence

def write_evidence(engine, args, vseed, agg, samples, wall, nviol_sigs, known_hit, stopped_early, nviol_runs, workers):
    os.makedirs(EVIDENCE, exist_ok=True)
    rate = agg['runs'] / wall * 3600 if wall > 0 else 0
    cov = {
        'evaluations': agg['runs'],
        'distinct_nontrivial': len(agg['sigs']),
        'rule': engine.rule,
        'samples': samples,
        'nontrivial_runs': agg['nontrivial_runs'],
        'fault_free_runs': agg['fault_free_runs'],
        'events_executed': agg['steps'],
        'faults_fired': dict(sorted(agg['faults'].items())),
        'ops_by_kind': dict(sorted(agg['ops'].items())),
        'probes': dict(sorted(agg['probes'].items())),
        'probes_stuck_at_zero': sorted(p for p in getattr(engine, 'expected_probes', []) if agg['probes'].get(p, 0) == 0),
        'runs_per_hour': int(rate),
        'seeds': {'verif_seed': vseed, 'first_run_index': args.start, 'runs': agg['runs'],
                  'derivation': 'run_seed = sha256("<prop>:<VERIF_SEED>:<index>")[:8]'},
        'simulated_time': ({'lammps_timesteps': agg['sim_steps']} if agg['sim_steps'] else
                           'none: no clock is read by the anchored code'),
        'real_components': engine.real_components,
        'stub_components': engine.stub_components,
        'tolerances': engine.tolerances,
        'known_findings_hit': [{'clause': s[0], 'site': s[1], 'klass': s[2], 'runs': len(rs)}
                               for s, (e, rs) in known_hit.items()],
        'budget_exhausted_before_all_runs': bool(stopped_early),
        'workers': workers,
        'tree_sha': os.environ.get('VERIF_TREE_SHA'),
        'build_s': float(os.environ.get('VERIF_BUILD_S') or 0),
    }
    doc = {
        'property_id': engine.prop,
        'tier': args.tier,
        'seed': vseed,
        'level': 'exploration',
        'coverage': cov,
        'assumptions': engine.assumptions,
        'wall_s': round(wall, 2),
        'violations': nviol_runs,
    }
    path = os.path.join(EVIDENCE, '%s.json' % engine.prop)
    tmp = path + '.tmp'
    with open(tmp, 'w') as f:
        json.dump(doc, f, indent=1, sort_keys=True)
    os.replace(tmp, path)
