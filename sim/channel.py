"""The file as a channel between a real writer and a real reader.

Perturbations are exactly the ones C08's statement names: atom lines in another
order (where ids are present), comments and blank lines the format allows, loss
of a required section of a LAMMPS data file.  Nothing is inserted where the
published format forbids it.
"""

import math
import re


def fmt_err(fmt, x):
    """Upper bound on |printed(x) - x| for a C-style float format."""
    m = re.match(r'%\.(\d+)([feg])$', fmt)
    if not m:
        raise ValueError('unsupported float format ' + fmt)
    n, t = int(m.group(1)), m.group(2)
    if t == 'f':
        return 0.5 * 10.0 ** (-n)
    ax = abs(float(x))
    if ax == 0.0:
        return 0.0
    e = math.floor(math.log10(ax))
    if t == 'e':
        return 0.5 * 10.0 ** (e - n) * 1.000001
    p = max(n, 1)
    return 0.5 * 10.0 ** (e - (p - 1)) * 1.000001


# ---------------------------------------------------------------------------
# LAMMPS data file

def split_data(text):
    """Splits a data file written by atomman into header lines, Atoms rows,
    Velocities rows (or None).  Relies only on the section keywords."""
    lines = text.split('\n')
    if lines and lines[-1] == '':
        lines = lines[:-1]
    ia = next(i for i, l in enumerate(lines) if l.split('#')[0].split() == ['Atoms'])
    iv = next((i for i, l in enumerate(lines) if l.split('#')[0].split() == ['Velocities']), None)
    header = lines[:ia]
    atoms_kw = lines[ia]
    if iv is None:
        atoms_rows = [l for l in lines[ia + 2:] if l.strip()]
        vel_rows = None
    else:
        atoms_rows = [l for l in lines[ia + 2:iv] if l.strip()]
        vel_rows = [l for l in lines[iv + 2:] if l.strip()]
    return header, atoms_kw, atoms_rows, vel_rows


def perturb_data(text, plan):
    header, atoms_kw, arows, vrows = split_data(text)
    fired = []
    if plan.get('title') is not None and header:
        header[0] = plan['title']
        fired.append('noise_title')
    loss = plan.get('loss')
    if loss == 'natoms':
        header = [l for l in header if not (len(l.split('#')[0].split()) == 2 and l.split('#')[0].split()[1] == 'atoms')]
        fired.append('loss_natoms')
    elif loss in ('xlo', 'ylo', 'zlo'):
        header = [l for l in header if loss not in l.split('#')[0].split()]
        fired.append('loss_bounds')
    # blank lines and comments among the header lines (never before the title line)
    for pos, txt in sorted(plan.get('header_noise', []), key=lambda p: -p[0]):
        k = 1 + pos % max(1, len(header))
        header.insert(min(k, len(header)), txt)
        fired.append('noise_header_line')
    for i, txt in plan.get('header_tail', []):
        # trailing comment on a header line that carries data
        idx = [j for j, l in enumerate(header) if l.split() and not l.lstrip().startswith('#') and j > 0]
        if idx:
            j = idx[i % len(idx)]
            header[j] = header[j] + ' ' + txt
            fired.append('noise_header_tail')
    if plan.get('perm_atoms') and len(plan['perm_atoms']) == len(arows):
        arows = [arows[i] for i in plan['perm_atoms']]
        fired.append('reorder_atoms')
    if vrows is not None and plan.get('perm_vel') and len(plan['perm_vel']) == len(vrows):
        vrows = [vrows[i] for i in plan['perm_vel']]
        fired.append('reorder_velocities')
    for i in plan.get('row_comments', []):
        if arows:
            j = i % len(arows)
            arows[j] = arows[j] + '  # atom ' + str(j)
            fired.append('noise_row_comment')
    out = list(header)
    if loss not in ('atoms_section', 'atoms_only'):
        out += [atoms_kw, ''] + arows
    else:
        fired.append('loss_atoms_section')
        if loss == 'atoms_only' and vrows is not None:
            fired.append('loss_atoms_section_velocities_kept')
    if vrows is not None and loss != 'atoms_section':
        for txt in plan.get('between_noise', []):
            out.append(txt)
            fired.append('noise_between_sections')
        if loss == 'velocity_rows':
            out += ['', 'Velocities'] + ([''] if plan.get('tail_blank') else [])
            fired.append('loss_velocity_rows')
        else:
            out += ['', 'Velocities', ''] + vrows
    for txt in plan.get('tail_noise', []):
        out.append(txt)
        fired.append('noise_tail')
    return '\n'.join(out) + '\n', fired


# ---------------------------------------------------------------------------
# LAMMPS dump file (nothing may be inserted; rows carry ids)

def perturb_dump(text, plan):
    lines = text.split('\n')
    if lines and lines[-1] == '':
        lines = lines[:-1]
    ia = next(i for i, l in enumerate(lines) if l.startswith('ITEM: ATOMS'))
    rows = lines[ia + 1:]
    fired = []
    if plan.get('perm_atoms') and len(plan['perm_atoms']) == len(rows) and ' id ' in lines[ia] + ' ':
        rows = [rows[i] for i in plan['perm_atoms']]
        fired.append('reorder_atoms')
    return '\n'.join(lines[:ia + 1] + rows) + '\n', fired


def perturb_table(text, plan, has_header, has_id):
    lines = text.split('\n')
    if lines and lines[-1] == '':
        lines = lines[:-1]
    head = lines[:1] if has_header else []
    rows = lines[1:] if has_header else lines
    fired = []
    if has_id and plan.get('perm_atoms') and len(plan['perm_atoms']) == len(rows):
        rows = [rows[i] for i in plan['perm_atoms']]
        fired.append('reorder_atoms')
    return '\n'.join(head + rows) + '\n', fired


def perturb_poscar(text, plan):
    lines = text.split('\n')
    fired = []
    if plan.get('title') is not None:
        lines[0] = plan['title']
        fired.append('noise_title')
    for _ in range(int(plan.get('tail_blank', 0))):
        lines.append('')
        fired.append('noise_tail')
    return '\n'.join(lines), fired
