"""Claimed checks beyond C01 and the properties still under construction."""
CLAIMED = {
 'C06': dict(engine='session_atoms', ref='4.5',
   text='Seeded search over edit histories on a pool of live Atoms/System objects (every operation of the quantifier, refused operations, caller scribbles, writes through possibly-aliased children, box changes under relatives) with every pooled object compared cell by cell against a record-per-atom model after every step. Exploration: the property quantifies over histories, which can only be sampled.',
   note='Single caller (atomman has no threads). Undocumented sharing between a slice child and its parent is treated as may-alias (old-or-new accepted for cells written through the other side). Writes to existing properties are generated representable in the stored dtype.',
   technique='deterministic simulation: seeded operation-and-fault histories vs record-per-atom reference model, ddmin replay'),
}
BUILDING = {p: 'claimed in DESIGN.md; check under construction in this session, not yet registered' for p in
            ['C08', 'C09', 'C10', 'C15', 'C19']}
