"""Claimed checks beyond C01 and the properties still under construction."""
CLAIMED = {
 'C06': dict(engine='session_atoms', ref='4.5',
   text='Seeded search over edit histories on a pool of live Atoms/System objects (every operation of the quantifier, refused operations, caller scribbles, writes through possibly-aliased children, box changes under relatives) with every pooled object compared cell by cell against a record-per-atom model after every step. Exploration: the property quantifies over histories, which can only be sampled.',
   note='Single caller (atomman has no threads). Undocumented sharing between a slice child and its parent is treated as may-alias (old-or-new accepted for cells written through the other side). Writes to existing properties are generated representable in the stored dtype.',
   technique='deterministic simulation: seeded operation-and-fault histories vs record-per-atom reference model, ddmin replay'), 'C15': dict(engine='session_point', ref='4.6',
   text='Seeded search over histories of point-defect insertions (vacancy, interstitial, substitutional, dumbbell; direct and via point()) on evolving systems, each site selected by index, position, box-relative position or periodic image, with a record-per-atom model carrying original-id bookkeeping; every successful insertion is repeated through every other selection method (differential), refused sites (absent, ambiguous, occupied, also through an image) must be refused, and all systems of the history are compared bit for bit with their snapshots after every operation and after scribbling on results. Exploration: histories and site/selection combinations are sampled.',
   note='Site decisions use the 27-image periodic distance (same definition as C02); sites between 0.6 and 1.6 atol from any atom are not generated; exception classes, masses and the old_id of ADDED atoms are not part of the statement and are not checked.',
   technique='deterministic simulation: seeded insertion/refusal/scribble histories vs reference model + differential selection, ddmin replay'),
}
BUILDING = {p: 'claimed in DESIGN.md; check under construction in this session, not yet registered' for p in
            ['C08', 'C09', 'C10', 'C19']}
