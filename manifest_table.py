"""Claimed checks beyond C01 and the properties still under construction."""
CLAIMED = {}
BUILDING = {p: 'claimed in DESIGN.md; check under construction in this session, not yet registered' for p in
            ['C06', 'C08', 'C09', 'C10', 'C15', 'C19']}
